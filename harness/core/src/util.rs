//! Small self-contained utilities: PRNG, hashing, JSON writing, argument parsing.

use std::collections::BTreeMap;
use std::fmt::Write as _;

/// SplitMix64.
#[derive(Clone, Debug)]
pub struct Rng(pub u64);
impl Rng {
    pub fn new(seed: u64) -> Self {
        Rng(seed ^ 0x9E37_79B9_7F4A_7C15)
    }
    #[inline]
    pub fn next(&mut self) -> u64 {
        self.0 = self.0.wrapping_add(0x9E37_79B9_7F4A_7C15);
        let mut z = self.0;
        z = (z ^ (z >> 30)).wrapping_mul(0xBF58_476D_1CE4_E5B9);
        z = (z ^ (z >> 27)).wrapping_mul(0x94D0_49BB_1331_11EB);
        z ^ (z >> 31)
    }
    /// Uniform in `0..n` (n > 0).
    #[inline]
    pub fn below(&mut self, n: usize) -> usize {
        debug_assert!(n > 0);
        (self.next() % (n as u64)) as usize
    }
    #[inline]
    pub fn chance(&mut self, num: u64, den: u64) -> bool {
        self.next() % den < num
    }
    pub fn pick<'a, T>(&mut self, xs: &'a [T]) -> &'a T {
        &xs[self.below(xs.len())]
    }
}

#[inline]
pub fn mix64(mut z: u64) -> u64 {
    z = z.wrapping_add(0x9E37_79B9_7F4A_7C15);
    z = (z ^ (z >> 30)).wrapping_mul(0xBF58_476D_1CE4_E5B9);
    z = (z ^ (z >> 27)).wrapping_mul(0x94D0_49BB_1331_11EB);
    z ^ (z >> 31)
}

/// FNV-1a, for descriptor hashing.
pub fn fnv(s: &str) -> u64 {
    let mut h: u64 = 0xcbf2_9ce4_8422_2325;
    for b in s.as_bytes() {
        h ^= *b as u64;
        h = h.wrapping_mul(0x100_0000_01b3);
    }
    h
}

pub fn json_escape(s: &str) -> String {
    let mut o = String::with_capacity(s.len() + 2);
    o.push('"');
    for c in s.chars() {
        match c {
            '"' => o.push_str("\\\""),
            '\\' => o.push_str("\\\\"),
            '\n' => o.push_str("\\n"),
            '\r' => o.push_str("\\r"),
            '\t' => o.push_str("\\t"),
            c if (c as u32) < 0x20 => {
                let _ = write!(o, "\\u{:04x}", c as u32);
            }
            c => o.push(c),
        }
    }
    o.push('"');
    o
}

/// Minimal JSON object builder (flat, values pre-rendered).
#[derive(Default)]
pub struct JObj(Vec<(String, String)>);
impl JObj {
    pub fn new() -> Self {
        JObj(Vec::new())
    }
    pub fn s(mut self, k: &str, v: &str) -> Self {
        self.0.push((k.to_string(), json_escape(v)));
        self
    }
    pub fn n(mut self, k: &str, v: u64) -> Self {
        self.0.push((k.to_string(), v.to_string()));
        self
    }
    pub fn b(mut self, k: &str, v: bool) -> Self {
        self.0.push((k.to_string(), v.to_string()));
        self
    }
    pub fn raw(mut self, k: &str, v: String) -> Self {
        self.0.push((k.to_string(), v));
        self
    }
    pub fn map(self, k: &str, m: &BTreeMap<String, u64>) -> Self {
        let mut o = String::from("{");
        for (i, (kk, vv)) in m.iter().enumerate() {
            if i > 0 {
                o.push(',');
            }
            let _ = write!(o, "{}:{}", json_escape(kk), vv);
        }
        o.push('}');
        self.raw(k, o)
    }
    pub fn strs(self, k: &str, xs: &[String]) -> Self {
        let mut o = String::from("[");
        for (i, x) in xs.iter().enumerate() {
            if i > 0 {
                o.push(',');
            }
            o.push_str(&json_escape(x));
        }
        o.push(']');
        self.raw(k, o)
    }
    pub fn render(&self) -> String {
        let mut o = String::from("{");
        for (i, (k, v)) in self.0.iter().enumerate() {
            if i > 0 {
                o.push(',');
            }
            let _ = write!(o, "{}:{}", json_escape(k), v);
        }
        o.push('}');
        o
    }
}

/// `--key value` / `--flag` argument bag.
#[derive(Clone, Debug, Default)]
pub struct Args {
    pub kv: BTreeMap<String, String>,
    pub pos: Vec<String>,
}
impl Args {
    pub fn parse(it: impl Iterator<Item = String>) -> Self {
        let mut a = Args::default();
        let v: Vec<String> = it.collect();
        let mut i = 0;
        while i < v.len() {
            if let Some(k) = v[i].strip_prefix("--") {
                if i + 1 < v.len() && !v[i + 1].starts_with("--") {
                    a.kv.insert(k.to_string(), v[i + 1].clone());
                    i += 2;
                } else {
                    a.kv.insert(k.to_string(), "1".to_string());
                    i += 1;
                }
            } else {
                a.pos.push(v[i].clone());
                i += 1;
            }
        }
        a
    }
    pub fn get(&self, k: &str) -> Option<&str> {
        self.kv.get(k).map(|s| s.as_str())
    }
    pub fn get_or(&self, k: &str, d: &str) -> String {
        self.get(k).unwrap_or(d).to_string()
    }
    pub fn num(&self, k: &str, d: u64) -> u64 {
        self.get(k).and_then(|s| s.parse().ok()).unwrap_or(d)
    }
    pub fn flag(&self, k: &str) -> bool {
        self.kv.contains_key(k)
    }
}
