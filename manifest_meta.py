"""Human-written MANIFEST texts per property."""
HOOK_COMMITS = ["d1e2dd7"]
NOT_APPLICABLE = {}
META = {
    "C01": dict(
        text="Differential runtime monitoring against std::vec::Vec: every element-wise operation instance from every abstract state up to the length bound "
             "(small-scope exhaustive, incl. the copy_bytes threshold lengths of every stride) on 69 configurations, plus seeded random histories over three vectors, "
             "on the production-flags build, the debug build and (thorough) the optimised build. Exploration, not proof: bounded by L, the configuration table and the seeds.",
        design_ref="DESIGN.md 3/C01, 1.3, 1.7",
        note="Trusted: std Vec as reference semantics; the element types' own probe/canary; the harness's mirror of each call on the model. Assumes behaviour depends on the state only through (len, capacity class, dirty spare) for the exhaustive part.",
        technique="differential runtime monitor (Vec reference model) over enumerated + random executions",
    ),
    "C02": dict(
        text="Differential runtime monitoring of drain/splice against Vec::drain/Vec::splice: every range in every RangeBounds form incl. invalid ranges at the boundary and at usize::MAX, "
             "every next/next_back consumption string, per-item sinks, replacement lengths 0..=K from every value-source kind, erased and typed, from every abstract state on 69 configurations, "
             "plus random range histories; production-flags and debug builds (D15 exists only without overflow checks). Exploration, bounded by L, K and the table.",
        design_ref="DESIGN.md 3/C02",
        note="Trusted: Vec::drain/splice semantics as mirrored by the model (hvcore::model), element canaries. A replacement iterator that is itself a drain of another vector is consumed/dropped by the caller side as in Vec.",
        technique="differential runtime monitor (Vec::drain/splice model) over enumerated ranges x consumption scripts",
    ),
    "C03": dict(
        text="Identity-level accounting at run time: every element instance is registered by its own constructor/Clone/Drop; after every step of every family (element, range, clone, lazy, mixed random histories over three "
             "vectors exchanging elements) the live-instance multiset must equal what is reachable through the vectors, a destructor on a non-live or malformed element is a violation, and at the end nothing may stay alive. "
             "By-value multiset accounting for no-drop types and by-count for zero-sized types. Exploration level.",
        design_ref="DESIGN.md 3/C03, 1.2",
        note="Trusted: the registry (thread-local, updated only from the element types' own code); ids of 8/16-bit element types are recycled, so for those accounting is by multiset. Leaks are tolerated only where the property permits unspecified results (capacity-overflow panic of a fixed backend).",
        technique="conservation / exactly-once monitor over Drop+Clone event log (identity registry)",
    ),
    "C08": dict(
        text="clone / clone_empty / clone_empty_in on every Cloneable configuration and backend pair from every state, followed by each single operation on original and clone; monitors: per-id Clone-event log, Vec model of "
             "both vectors (independence), distinct storage base pointers, element_typeid/layout of the result. Exploration level.",
        design_ref="DESIGN.md 3/C08",
        note="Trusted: the model; clone events are observed through the element type's Clone impl. clone_empty_in onto inline backends is exercised for element alignment <= 8 only (see C12 finding).",
        technique="differential monitor + Clone-event log + storage-identity check",
    ),
    "C09": dict(
        text="Lazy clones of all six cloneable source kinds x chain depth 1..3 x 0..3 consumptions of five kinds from every state: Clone/Drop event counters must not move while lazy clones are created, copied or dropped, "
             "and each consumption must produce exactly one Clone event of the original source id with a balanced registry afterwards. Exploration level.",
        design_ref="DESIGN.md 3/C09",
        note="Trusted: registry event counters; only drop-glue layouts are used (the quantifier says so), so a bitwise copy shows as a registry imbalance / double destroy.",
        technique="event-count monitor (Clone/Drop) around lazy-clone lifecycle",
    ),
    "C10": dict(
        text="reserve/reserve_exact/shrink_to_fit/shrink_to, erased and typed, with arguments 0..=len+5 and at the usize::MAX boundary from every (len, capacity) state on Heap and the instrumented backend, plus capacity "
             "calls inside random histories: postconditions on capacity(), storage base pointer, backend/allocator event counters and Drop/Clone counters checked at run time; len <= capacity after every step of every family. Exploration level.",
        design_ref="DESIGN.md 3/C10",
        note="Arguments whose byte size is valid but enormous are not probed (honest allocation failure aborts). Amortisation is checked with a loose logarithmic bound on reallocation counts.",
        technique="postcondition monitors on capacity/base pointer + backend and allocator event counters",
    ),
    "C14": dict(
        text="Every iterator kind driven by all next/next_back choice strings up to the bound plus six alternating calls after exhaustion; len() and size_hint() read before every step; clones of shared iterators taken mid-way and drained "
             "after the original advanced. Compared against the model's cursor pair. Exploration level (exhaustive in the choice strings for n <= 7).",
        design_ref="DESIGN.md 3/C14",
        note="Trusted: the model. Harness loops are bounded by n + 6, never while-let on a library iterator.",
        technique="trace monitor over iterator events (len/size_hint/yield) vs cursor-pair model",
    ),
}
