//! Plain-data operation descriptions shared by the rig (real library calls) and the model.

use crate::reg::Id;
use std::fmt;
use std::ops::Bound;

#[derive(Clone, Copy, Debug, PartialEq, Eq)]
pub enum LazySrc {
    Ref,
    Mut,
    Pop,
    Remove,
    SwapRemove,
    Drained,
}

/// How a value is supplied to push / insert.
#[derive(Clone, Debug, PartialEq, Eq)]
pub enum Src {
    /// `AnyValueWrapper<T>` (statically typed fast path through the erased API)
    Wrapper(Id),
    /// `AnyValueRaw` (type-erased path)
    Raw(Id),
    /// `AnyValueTypelessRaw` through the `_unchecked` entry point
    TypelessRaw(Id),
    /// `AnyValueSizelessRaw` through the `_unchecked` entry point
    SizelessRaw(Id),
    /// removal handle of vector `w`
    Pop(usize),
    Remove(usize, usize),
    SwapRemove(usize, usize),
    /// element yielded by `vecs[w].drain(j..j+1)`
    Drained(usize, usize),
    /// lazy clone (chain depth 1..=3) of an element / handle of vector `w` at index `j`;
    /// depth 11 / 12: depth 1 / 2 consumed through `push_unchecked` / `insert_unchecked`; depth 21: built with `LazyClone::new`
    Lazy(LazySrc, usize, usize, u8),
    /// `vecs[w].pop()` handle consumed through `push_unchecked` / `insert_unchecked`
    HandleUnchecked(usize),
    /// a user-implemented `AnyValue` with a statically known `Type`, larger than the element, whose `move_into` trusts
    /// the byte size it is given
    UserTyped(Id),
    /// a lazy clone of a user-implemented cloneable value with a statically known `Type` (dropped after the call)
    UserLazy(Id),
}

#[derive(Clone, Copy, Debug, PartialEq, Eq)]
pub enum Pre {
    None,
    /// `downcast_mut::<T>()` then rewrite identity
    Mutate(Id),
    /// `swap` with an `AnyValueWrapper<T>` holding a fresh value
    SwapWrapper(Id),
    /// `swap` with an `AnyValueRaw` pointing at a fresh value
    SwapRaw(Id),
    /// read `as_bytes()` / `size()` / `value_typeid()` first
    Inspect,
}
#[derive(Clone, Copy, Debug, PartialEq, Eq)]
pub enum Fin {
    Drop,
    Downcast,
    /// `downcast_ref` report, then drop
    Ref,
    Push(usize),
    Insert(usize, usize),
    Forget,
}
/// How a removed / yielded value is consumed.
#[derive(Clone, Copy, Debug, PartialEq, Eq)]
pub struct Sink {
    pub pre: Pre,
    pub fin: Fin,
    /// use the `*_unchecked` flavour of every downcast / swap involved (same observable behaviour for the right type)
    pub unchecked: bool,
}
impl Sink {
    pub const DROP: Sink = Sink { pre: Pre::None, fin: Fin::Drop, unchecked: false };
    pub const DOWNCAST: Sink = Sink { pre: Pre::None, fin: Fin::Downcast, unchecked: false };
    pub const FORGET: Sink = Sink { pre: Pre::None, fin: Fin::Forget, unchecked: false };
    pub fn new(pre: Pre, fin: Fin) -> Sink {
        Sink { pre, fin, unchecked: false }
    }
    pub fn unchecked(pre: Pre, fin: Fin) -> Sink {
        Sink { pre, fin, unchecked: true }
    }
}

#[derive(Clone, Copy, Debug, PartialEq, Eq)]
pub enum GetHow {
    Get,
    At,
    GetMut,
    AtMut,
    TGet,
    TAt,
    TGetMut,
    TAtMut,
    /// the `unsafe` flavours (only issued for an index in range): `get_unchecked`, `get_unchecked_mut`, and the typed ones
    /// reached through `downcast_ref_unchecked` / `downcast_mut_unchecked` of the vector
    GetUnchecked,
    GetUncheckedMut,
    TGetUnchecked,
    TGetUncheckedMut,
}
#[derive(Clone, Copy, Debug, PartialEq, Eq)]
pub enum IterHow {
    Iter,
    IterMut,
    IntoIterRef,
    IntoIterMut,
    TIter,
    TIterMut,
    TIntoIterRef,
    TIntoIterMut,
}

#[derive(Clone, Copy, Debug, PartialEq, Eq)]
pub struct Step {
    pub back: bool,
    pub sink: Sink,
    /// `nth(skip)` / `nth_back(skip)` instead of `next()` / `next_back()`: the skipped items are
    /// consumed (and, for an owning iterator, destroyed) by the iterator itself
    pub skip: u8,
}
#[derive(Clone, Copy, Debug, PartialEq, Eq)]
pub enum End {
    Drop,
    Forget,
    /// finish through the iterator's own bulk methods (which an implementation may override): the rest is consumed by
    /// `count()`, `last()`, `fold`, `rfold`, `step_by(2)`, `for_each`, `max_by_key`, `min_by_key`; every remaining item is
    /// reported and destroyed
    Count,
    Last,
    Fold,
    RFold,
    StepBy2,
    ForEach,
    MaxByKey,
    MinByKey,
    /// early-exit searches for the element that was at absolute index `j` of the vector before the operation (no match when
    /// `j` is out of range or that element is no longer among the remaining items); what is left afterwards is reported by
    /// `len()` and consumed through `fold`
    Find(u8),
    RFind(u8),
    Position(u8),
    RPosition(u8),
    Any(u8),
    All(u8),
}
impl End {
    pub const BULK: [End; 8] = [End::Count, End::Last, End::Fold, End::RFold, End::StepBy2, End::ForEach, End::MaxByKey, End::MinByKey];
    /// Bulk finishers plus the searches aimed at the given absolute indices.
    pub fn finishers(targets: &[usize]) -> Vec<End> {
        let mut v = End::BULK.to_vec();
        for t in targets {
            let j = (*t).min(250) as u8;
            v.extend([End::Find(j), End::RFind(j), End::Position(j), End::RPosition(j), End::Any(j), End::All(j)]);
        }
        v
    }
    /// Absolute index of the element a search finisher looks for.
    pub fn index(&self) -> Option<usize> {
        match self {
            End::Find(j) | End::RFind(j) | End::Position(j) | End::RPosition(j) | End::Any(j) | End::All(j) => Some(*j as usize),
            _ => None,
        }
    }
    pub fn suffix(&self) -> &'static str {
        match self {
            End::Drop => "",
            End::Forget => "+forget",
            End::Count => "+count",
            End::Last => "+last",
            End::Fold => "+fold",
            End::RFold => "+rfold",
            End::StepBy2 => "+step_by",
            End::ForEach => "+for_each",
            End::MaxByKey => "+max_by_key",
            End::MinByKey => "+min_by_key",
            End::Find(_) => "+find",
            End::RFind(_) => "+rfind",
            End::Position(_) => "+position",
            End::RPosition(_) => "+rposition",
            End::Any(_) => "+any",
            End::All(_) => "+all",
        }
    }
    /// What the finisher reports for the remaining items `rest` (front to back): (values, numeric reports).
    /// `target` is the identity a search finisher looks for.
    pub fn expected(&self, rest: &[Id], target: Option<Id>) -> (Vec<Val>, Vec<usize>) {
        let ids = |r: &[Id]| -> Vec<Val> { r.iter().map(|i| Val::Id(*i)).collect() };
        let first = target.and_then(|t| rest.iter().position(|i| *i == t));
        let last = target.and_then(|t| rest.iter().rposition(|i| *i == t));
        // after a search: the remaining count, then the remaining items through fold
        let after = |mut vals: Vec<Val>, mut nums: Vec<usize>, r: &[Id]| {
            nums.push(r.len());
            vals.extend(ids(r));
            (vals, nums)
        };
        match self {
            End::Drop | End::Forget => (vec![], vec![]),
            End::Count => (vec![], vec![rest.len()]),
            End::Last => (vec![rest.last().map(|i| Val::Id(*i)).unwrap_or(Val::None)], vec![]),
            End::Fold | End::ForEach => (ids(rest), vec![]),
            End::RFold => (rest.iter().rev().map(|i| Val::Id(*i)).collect(), vec![]),
            End::StepBy2 => (rest.iter().step_by(2).map(|i| Val::Id(*i)).collect(), vec![]),
            // max_by_key returns the last maximum, min_by_key the first minimum
            End::MaxByKey => (vec![rest.iter().max().map(|i| Val::Id(*i)).unwrap_or(Val::None)], vec![]),
            End::MinByKey => (vec![rest.iter().min().map(|i| Val::Id(*i)).unwrap_or(Val::None)], vec![]),
            End::Find(_) => match first {
                Some(i) => after(vec![Val::Id(rest[i])], vec![], &rest[i + 1..]),
                None => after(vec![Val::None], vec![], &[]),
            },
            End::RFind(_) => match last {
                Some(i) => after(vec![Val::Id(rest[i])], vec![], &rest[..i]),
                None => after(vec![Val::None], vec![], &[]),
            },
            End::Position(_) => match first {
                Some(i) => after(vec![], vec![i], &rest[i + 1..]),
                None => after(vec![], vec![usize::MAX], &[]),
            },
            End::RPosition(_) => match last {
                Some(i) => after(vec![], vec![i], &rest[..i]),
                None => after(vec![], vec![usize::MAX], &[]),
            },
            End::Any(_) => match first {
                Some(i) => after(vec![], vec![1], &rest[i + 1..]),
                None => after(vec![], vec![0], &[]),
            },
            End::All(_) => match first {
                Some(i) => after(vec![], vec![0], &rest[i + 1..]),
                None => after(vec![], vec![1], &[]),
            },
        }
    }
}

/// Position sentinel for range bounds: "the vector's current length" (resolved when the operation runs; used by follow-up
/// operations after a leak, where the length is not known when the sequence is generated).
pub const AT_LEN: usize = usize::MAX / 3;
pub fn at_len(b: Bound<usize>, len: usize) -> Bound<usize> {
    match b {
        Bound::Included(x) if x == AT_LEN => Bound::Included(len),
        Bound::Excluded(x) if x == AT_LEN => Bound::Excluded(len),
        o => o,
    }
}

/// How a lying replacement iterator misreports: `code` in -9..=9: always off by `code`; 40+d: honest on the first `len()`
/// call, off by d from the second call on; 80+d: off by d on the first call only.
pub fn lie_decode(code: i8) -> (isize, u8) {
    match code {
        31..=49 => (code as isize - 40, 1),
        71..=89 => (code as isize - 80, 2),
        // a gross lie: about usize::MAX / 2 items announced (the capacity request must be refused by a panic)
        LIE_HUGE => ((usize::MAX / 2) as isize, 0),
        _ => (code as isize, 0),
    }
}
pub const LIE_HUGE: i8 = 120;

/// Replacement sequence of a splice.
#[derive(Clone, Debug, PartialEq, Eq)]
pub enum Repl {
    Wrappers(Vec<Id>),
    Raws(Vec<Id>),
    /// `vecs[w].drain(a..b)` used directly as the replacement iterator
    DrainOf(usize, usize, usize),
    /// lazy clones of `vecs[w][j]` for each j
    LazyRefs(usize, Vec<usize>),
    /// wrappers, but `len()` is reported off by the given delta
    Lying(Vec<Id>, i8),
    /// wrappers; the item at position k has a foreign type (C04)
    Mismatch(Vec<Id>, usize),
    /// raws with foreign type id at position k (C04)
    MismatchRaw(Vec<Id>, usize),
    /// an honest iterator over a shared queue that holds all but the last `k` items when `splice()` is called; the last `k`
    /// are appended while the splice handle is alive (`len()` is right at every instant; `Vec::splice` inserts them all)
    Growing(Vec<Id>, usize),
}
impl Repl {
    pub fn ids(&self) -> Option<&[Id]> {
        match self {
            Repl::Wrappers(v) | Repl::Raws(v) | Repl::Lying(v, _) | Repl::Mismatch(v, _) | Repl::MismatchRaw(v, _) | Repl::Growing(v, _) => Some(v),
            _ => None,
        }
    }
}

/// How one lazy clone is consumed (C09).
#[derive(Clone, Copy, Debug, PartialEq, Eq)]
pub enum LazyUse {
    Push(usize),
    Insert(usize, usize),
    /// `splice(k..k, [lazy])` into vector w
    Splice(usize, usize),
    Downcast,
    /// created (and copied) but dropped unconsumed
    DropUnused,
}
/// C09: `uses` consumptions of lazy clones (chain depth `depth`) of one source.
#[derive(Clone, Debug, PartialEq, Eq)]
pub struct LazyMulti {
    pub kind: LazySrc,
    pub w: usize,
    pub j: usize,
    pub depth: u8,
    pub uses: Vec<LazyUse>,
}

/// Through which view an element is overwritten (C13).
#[derive(Clone, Copy, Debug, PartialEq, Eq)]
pub enum ViewKind {
    ElemMutTyped,
    /// `ElementMut::downcast_mut_unchecked`
    ElemMutTypedUnchecked,
    ElemMutBytes,
    GetMutTyped,
    TypedAtMut,
    TypedGetMut,
    TypedSlice,
    VecBytes,
    IterMutItem,
    TIterMutItem,
    /// `ElementMut::swap(&mut AnyValueWrapper)` (other side statically typed)
    ElemSwapWrapper,
    /// `AnyValueWrapper::swap(&mut ElementMut)` (self side statically typed)
    WrapperSwapElem,
    /// `ElementMut::swap(&mut AnyValueRaw)` (both erased)
    ElemSwapRaw,
    /// swap with element j of vector w through two `ElementMut`s
    ElemSwapElem,
    /// swap with the unconsumed `pop()` handle of vector w, which is then dropped
    ElemSwapPopHandle,
    /// swap with the unconsumed `remove(j)` handle of vector w, which is then pushed back to w
    ElemSwapRemoveHandle,
}
pub const ALL_VIEWS: [ViewKind; 16] = [
    ViewKind::ElemMutTyped, ViewKind::ElemMutTypedUnchecked, ViewKind::ElemMutBytes, ViewKind::GetMutTyped, ViewKind::TypedAtMut, ViewKind::TypedGetMut,
    ViewKind::TypedSlice, ViewKind::VecBytes, ViewKind::IterMutItem, ViewKind::TIterMutItem, ViewKind::ElemSwapWrapper,
    ViewKind::WrapperSwapElem, ViewKind::ElemSwapRaw, ViewKind::ElemSwapElem, ViewKind::ElemSwapPopHandle, ViewKind::ElemSwapRemoveHandle,
];

#[derive(Clone, Copy, Debug, PartialEq, Eq)]
pub enum Target {
    Heap,
    Guard,
    Stack,
    StackN,
}

#[derive(Clone, Debug, PartialEq, Eq)]
pub enum Op {
    LazyMulti(LazyMulti),
    /// drive a non-consuming iterator by an explicit next/next_back script (true = back);
    /// `clone_at`: clone the (shared) iterator before that step and drain the clone at the end
    /// `skips[n]` > 0 turns step n into `nth(k)` / `nth_back(k)`
    IterScript { v: usize, how: IterHow, script: Vec<bool>, skips: Vec<u8>, clone_at: Option<usize>, end: End },
    /// `clone_empty_in(target backend)`, move every element over and back (see rig)
    CloneEmptyIn { v: usize, target: Target },
    /// overwrite / swap element `at` of vector `v` through the given view (C13)
    ViewWrite { v: usize, at: usize, via: ViewKind, id: Id, w: usize, j: usize },
    Push { v: usize, src: Src },
    Insert { v: usize, at: usize, src: Src },
    Pop { v: usize, sink: Sink },
    Remove { v: usize, at: usize, sink: Sink },
    SwapRemove { v: usize, at: usize, sink: Sink },
    Clear { v: usize },
    TPush { v: usize, id: Id },
    TInsert { v: usize, at: usize, id: Id },
    TPop { v: usize },
    TRemove { v: usize, at: usize },
    TSwapRemove { v: usize, at: usize },
    TClear { v: usize },
    Get { v: usize, at: usize, how: GetHow },
    Iter { v: usize, how: IterHow, rev: bool },
    Drain { v: usize, lo: Bound<usize>, hi: Bound<usize>, typed: bool, script: Vec<Step>, end: End },
    Splice { v: usize, lo: Bound<usize>, hi: Bound<usize>, typed: bool, repl: Repl, script: Vec<Step>, end: End },
    CloneVec { v: usize, into: usize },
    CloneEmpty { v: usize, into: usize },
    Reserve { v: usize, n: usize, exact: bool, typed: bool },
    ShrinkToFit { v: usize, typed: bool },
    ShrinkTo { v: usize, n: usize, typed: bool },
    RawRoundTrip { v: usize, times: u8 },
}

fn b(x: &Bound<usize>, lo: bool) -> String {
    match (x, lo) {
        (Bound::Included(i), true) => format!("{i}"),
        (Bound::Excluded(i), true) => format!("({i})"),
        (Bound::Unbounded, _) => String::new(),
        (Bound::Included(i), false) => format!("={i}"),
        (Bound::Excluded(i), false) => format!("{i}"),
    }
}
fn idstr(id: Id) -> String {
    if id == usize::MAX as u64 { "MAX".into() } else { id.to_string() }
}

impl fmt::Display for Src {
    fn fmt(&self, f: &mut fmt::Formatter<'_>) -> fmt::Result {
        match self {
            Src::Wrapper(i) => write!(f, "Wrapper#{i}"),
            Src::Raw(i) => write!(f, "Raw#{i}"),
            Src::TypelessRaw(i) => write!(f, "TypelessRaw#{i}"),
            Src::SizelessRaw(i) => write!(f, "SizelessRaw#{i}"),
            Src::Pop(w) => write!(f, "v{w}.pop()"),
            Src::HandleUnchecked(w) => write!(f, "unchecked:v{w}.pop()"),
            Src::UserTyped(i) => write!(f, "UserTyped#{i}"),
            Src::UserLazy(i) => write!(f, "Lazy(UserTyped#{i})"),
            Src::Remove(w, j) => write!(f, "v{w}.remove({j})"),
            Src::SwapRemove(w, j) => write!(f, "v{w}.swap_remove({j})"),
            Src::Drained(w, j) => write!(f, "v{w}.drain({j}..{})[0]", j + 1),
            Src::Lazy(k, w, j, d) => write!(f, "Lazy^{d}({k:?} v{w}[{j}])"),
        }
    }
}
impl fmt::Display for Sink {
    fn fmt(&self, f: &mut fmt::Formatter<'_>) -> fmt::Result {
        if self.unchecked {
            write!(f, "unchecked:")?;
        }
        match self.pre {
            Pre::None => {}
            Pre::Mutate(i) => write!(f, "mutate#{i}>")?,
            Pre::SwapWrapper(i) => write!(f, "swapW#{i}>")?,
            Pre::SwapRaw(i) => write!(f, "swapR#{i}>")?,
            Pre::Inspect => write!(f, "inspect>")?,
        }
        match self.fin {
            Fin::Drop => write!(f, "drop"),
            Fin::Downcast => write!(f, "downcast"),
            Fin::Ref => write!(f, "ref"),
            Fin::Push(w) => write!(f, "push->v{w}"),
            Fin::Insert(w, k) => write!(f, "insert->v{w}@{k}"),
            Fin::Forget => write!(f, "forget"),
        }
    }
}
fn script(s: &[Step]) -> String {
    let mut o = String::new();
    for st in s {
        o.push(if st.back { 'B' } else { 'F' });
        if st.skip > 0 {
            o.push_str(&format!("+{}", st.skip));
        }
        if st.sink != Sink::DROP {
            o.push_str(&format!("[{}]", st.sink));
        }
    }
    o
}
impl fmt::Display for Repl {
    fn fmt(&self, f: &mut fmt::Formatter<'_>) -> fmt::Result {
        match self {
            Repl::Wrappers(v) => write!(f, "{}xWrapper", v.len()),
            Repl::Raws(v) => write!(f, "{}xRaw", v.len()),
            Repl::DrainOf(w, a, b) => write!(f, "v{w}.drain({a}..{b})"),
            Repl::Growing(v, k) => write!(f, "{}xWrapper(+{k} later)", v.len() - k),
            Repl::LazyRefs(w, js) => write!(f, "Lazy(v{w}{js:?})"),
            Repl::Lying(v, d) if *d == LIE_HUGE => write!(f, "{}xWrapper(len=usize::MAX/2)", v.len()),
            Repl::Lying(v, d) => write!(f, "{}xWrapper(len{:+})", v.len(), d),
            Repl::Mismatch(v, k) => write!(f, "{}xWrapper(foreign@{k})", v.len()),
            Repl::MismatchRaw(v, k) => write!(f, "{}xRaw(foreign@{k})", v.len()),
        }
    }
}
impl fmt::Display for Op {
    fn fmt(&self, f: &mut fmt::Formatter<'_>) -> fmt::Result {
        match self {
            Op::LazyMulti(m) => write!(f, "lazy^{}({:?} v{}[{}])x{:?}", m.depth, m.kind, m.w, m.j, m.uses),
            Op::IterScript { v, how, script, skips, clone_at, end } => write!(
                f, "v{v}.{how:?}|{}|clone@{clone_at:?}{}",
                script.iter().enumerate().map(|(n, b)| {
                    let k = skips.get(n).copied().unwrap_or(0);
                    if k > 0 { format!("{}+{k}", if *b { 'B' } else { 'F' }) } else { (if *b { "B" } else { "F" }).to_string() }
                }).collect::<String>(),
                end.suffix()
            ),
            Op::CloneEmptyIn { v, target } => write!(f, "v{v}.clone_empty_in({target:?})"),
            Op::ViewWrite { v, at, via, id, w, j } => write!(f, "v{v}[{}] <-{via:?}- #{id} (v{w}[{j}])", idstr(*at as u64)),
            Op::Push { v, src } => write!(f, "v{v}.push({src})"),
            Op::Insert { v, at, src } => write!(f, "v{v}.insert({},{src})", idstr(*at as u64)),
            Op::Pop { v, sink } => write!(f, "v{v}.pop()->{sink}"),
            Op::Remove { v, at, sink } => write!(f, "v{v}.remove({})->{sink}", idstr(*at as u64)),
            Op::SwapRemove { v, at, sink } => write!(f, "v{v}.swap_remove({})->{sink}", idstr(*at as u64)),
            Op::Clear { v } => write!(f, "v{v}.clear()"),
            Op::TPush { v, id } => write!(f, "v{v}.typed.push(#{id})"),
            Op::TInsert { v, at, id } => write!(f, "v{v}.typed.insert({},#{id})", idstr(*at as u64)),
            Op::TPop { v } => write!(f, "v{v}.typed.pop()"),
            Op::TRemove { v, at } => write!(f, "v{v}.typed.remove({})", idstr(*at as u64)),
            Op::TSwapRemove { v, at } => write!(f, "v{v}.typed.swap_remove({})", idstr(*at as u64)),
            Op::TClear { v } => write!(f, "v{v}.typed.clear()"),
            Op::Get { v, at, how } => write!(f, "v{v}.{how:?}({})", idstr(*at as u64)),
            Op::Iter { v, how, rev } => write!(f, "v{v}.{how:?}{}", if *rev { ".rev" } else { "" }),
            Op::Drain { v, lo, hi, typed, script: s, end } => write!(
                f, "v{v}.{}drain({}..{})|{}|{end:?}", if *typed { "typed." } else { "" }, b(lo, true), b(hi, false), script(s)
            ),
            Op::Splice { v, lo, hi, typed, repl, script: s, end } => write!(
                f, "v{v}.{}splice({}..{},{repl})|{}|{end:?}", if *typed { "typed." } else { "" }, b(lo, true), b(hi, false), script(s)
            ),
            Op::CloneVec { v, into } => write!(f, "v{into}=v{v}.clone()"),
            Op::CloneEmpty { v, into } => write!(f, "v{into}=v{v}.clone_empty()"),
            Op::Reserve { v, n, exact, typed } => write!(
                f, "v{v}.{}reserve{}({})", if *typed { "typed." } else { "" }, if *exact { "_exact" } else { "" }, idstr(*n as u64)
            ),
            Op::ShrinkToFit { v, typed } => write!(f, "v{v}.{}shrink_to_fit()", if *typed { "typed." } else { "" }),
            Op::ShrinkTo { v, n, typed } => write!(f, "v{v}.{}shrink_to({})", if *typed { "typed." } else { "" }, idstr(*n as u64)),
            Op::RawRoundTrip { v, times } => write!(f, "v{v}.raw_round_trip(x{times})"),
        }
    }
}

/// One observed value: an element identity, garbage, or "none".
#[derive(Clone, Copy, Debug, PartialEq, Eq)]
pub enum Val {
    Id(Id),
    Garbage(u64),
    None,
}

/// What an operation produced, as seen at the API boundary.
#[derive(Clone, Debug, Default, PartialEq, Eq)]
pub struct Outcome {
    pub panicked: bool,
    pub panic_msg: String,
    /// returned / removed / yielded values in order
    pub vals: Vec<Val>,
    /// iterator `len()` reports taken before every step and after the last
    pub lens: Vec<usize>,
    /// operation not available in this configuration (not executed)
    pub unsupported: bool,
    /// harness-side notes of inconsistencies observed on handles (C13-style checks)
    pub notes: Vec<String>,
}
