//! Property-specific workloads that need static types the generic rig does not carry:
//! wrong-type offers (C04), views / alignment / placement (C12), the SIZE/N grid of inline
//! backends (C11), the Empty backend (C17), overflow-boundary capacity requests (C18),
//! amortised growth (C10).

use std::alloc::Layout;
use std::any::TypeId;
use std::mem::{align_of, size_of, ManuallyDrop, MaybeUninit};

use any_vec::any_value::{AnyValue, AnyValueCloneable, AnyValueMut, AnyValueRaw, AnyValueTypeless, AnyValueWrapper};
use any_vec::mem::{Empty, MemBuilder, Stack, StackN};
use any_vec::traits::{Cloneable, None as TNone};
use any_vec::{AnyVec, SatisfyTraits};

use hvcore::drive::Ctx;
use hvcore::elems::*;
use hvcore::monalloc;
use hvcore::reg::{self, Id};
use hvcore::rigapi::guarded;
use hvcore::util::fnv;

use crate::caps::{MemCaps, TrCaps};
use crate::guardmem::GuardMem;
use crate::rig::RawSlot;

/// The run is restricted to pointer-free elements (Miri forced onto the production byte loop: a pointer copied byte by byte
/// loses its provenance there, so element types that own heap memory are left out - DESIGN.md 7.4).
pub fn pointer_free_only() -> bool {
    std::env::args().any(|a| a == "--pointer-free")
}

/// Book-keeping shared by the special workloads.
pub struct Sp<'a> {
    pub ctx: &'a mut Ctx,
    pub cfg: String,
    pub family: &'static str,
}
impl<'a> Sp<'a> {
    pub fn new(ctx: &'a mut Ctx, family: &'static str, cfg: String) -> Self {
        ctx.begin_family(family);
        ctx.stats.cfgs.insert(cfg.clone());
        Sp { ctx, cfg, family }
    }
    /// Should this shard run the next case?
    pub fn take(&mut self) -> bool {
        let o = self.ctx.ordinal;
        self.ctx.ordinal += 1;
        if let Some((f, c, n)) = &self.ctx.only {
            return f == self.family && *c == self.cfg && *n == o;
        }
        if self.ctx.sampled {
            // slow tools: a seeded 1-in-N sample (N shrinks as the quota grows), spread over the shards
            let n = (96 / self.ctx.quota.max(1)).max(2);
            let h = hvcore::util::mix64(o ^ fnv(&self.cfg) ^ self.ctx.seed.wrapping_mul(0x9E37));
            if h % n != 0 || ((h / n) % self.ctx.nshards as u64) as usize != self.ctx.shard {
                return false;
            }
            let cfg = self.cfg.clone();
            self.ctx.breadcrumb(&cfg, o);
            return true;
        }
        let mine = (o as usize) % self.ctx.nshards == self.ctx.shard;
        if mine {
            let cfg = self.cfg.clone();
            self.ctx.breadcrumb(&cfg, o);
        }
        mine
    }
    pub fn done(&mut self, desc: &str, nontrivial: bool, opsig: &str) {
        self.ctx.stats.evaluations += 1;
        if nontrivial {
            self.ctx.stats.distinct.insert(fnv(desc));
        }
        self.ctx.stats.opsigs.insert(opsig.to_string());
        if self.ctx.stats.samples.len() < 8 || (self.ctx.stats.evaluations % 501 == 0 && self.ctx.stats.samples.len() < 24) {
            self.ctx.stats.samples.push(desc.to_string());
        }
    }
    pub fn viol(&mut self, kind: &str, opsig: &str, detail: String, desc: &str) {
        let cfg = self.cfg.clone();
        self.ctx.report(&cfg, kind, opsig, detail, desc);
    }
    /// Drain allocator-monitor events (layout mismatches, damaged guard zones, writes to released blocks) into reports.
    pub fn drain_alloc(&mut self, opsig: &str, desc: &str) {
        if monalloc::mode() == monalloc::MODE_GUARD {
            monalloc::scan();
        }
        let (evs, _) = monalloc::drain_events();
        for e in evs {
            match e.kind {
                b'I' => self.viol("alloc-invalid", opsig, format!("invalid layout reached the allocator: size={:#x} align={}", e.size, e.align), desc),
                b'M' => self.viol("alloc-layout", opsig, format!("realloc/dealloc presented layout (size={}, align={}) for a block allocated with (size={}, align={})", e.size, e.align, e.aux, e.aux2), desc),
                b'G' => self.viol("guard", opsig, format!("heap block #{} ({} bytes): guard zone modified", e.aux, e.size), desc),
                b'Q' => self.viol("stale-write", opsig, format!("heap block #{} was written after it was released", e.aux), desc),
                b'F' => self.viol("alloc-layout", opsig, format!("heap block #{} released twice", e.aux), desc),
                _ => {}
            }
        }
    }
    /// Drain registry violations into reports.
    pub fn drain_reg(&mut self, opsig: &str, desc: &str) {
        for v in reg::take_violations() {
            self.viol(v.kind, opsig, v.detail, desc);
        }
    }
}

fn snap_ids<T: Elem, Tr: ?Sized + TrCaps, M: MemBuilder>(v: &AnyVec<Tr, M>) -> Result<Vec<Id>, String> {
    if v.len() > v.capacity() {
        return Err(format!("len {} > capacity {}", v.len(), v.capacity()));
    }
    let Some(tv) = v.downcast_ref::<T>() else { return Err("downcast_ref::<T>() of the vector's own type is None".into()) };
    let mut out = Vec::new();
    for e in tv.as_slice() {
        match e.probe() {
            Ok(i) => out.push(i),
            Err(r) => return Err(format!("garbage element {r:#x}")),
        }
    }
    Ok(out)
}

// ---------------------------------------------------------------------------------------------
// C04

struct Pair<A: Elem, B: Elem> {
    va: AnyVec<dyn Cloneable>,
    vb: AnyVec<dyn Cloneable>,
    ma: Vec<Id>,
    mb: Vec<Id>,
    next: Id,
    _p: std::marker::PhantomData<(A, B)>,
}

#[cfg(feature = "alloc")]
impl<A: Elem, B: Elem> Pair<A, B> {
    fn new(len_a: usize) -> Self {
        reg::reset();
        let mut p = Pair { va: AnyVec::new::<A>(), vb: AnyVec::new::<B>(), ma: vec![], mb: vec![], next: 0, _p: Default::default() };
        for _ in 0..len_a {
            let id = p.id();
            p.va.downcast_mut::<A>().unwrap().push(A::make(id));
            p.ma.push(id);
        }
        for _ in 0..3 {
            let id = p.id();
            p.vb.downcast_mut::<B>().unwrap().push(B::make(id));
            p.mb.push(id);
        }
        p
    }
    fn id(&mut self) -> Id {
        if A::ID_BITS == 0 || B::ID_BITS == 0 {
            return 0;
        }
        self.next += 1;
        self.next
    }
    /// Contents equal the models, registry balanced (live == visible), no registry violation.
    fn check(&mut self, sp: &mut Sp, opsig: &str, desc: &str, unspecified_a: bool) {
        match snap_ids::<A, _, _>(&self.va) {
            Ok(ids) => {
                if unspecified_a {
                    self.ma = ids;
                } else if ids != self.ma {
                    sp.viol("type-reject", opsig, format!("vector is {:?}, expected {:?}", ids, self.ma), desc);
                    self.ma = ids;
                }
            }
            Err(e) => sp.viol("type-reject", opsig, format!("vector invalid: {e}"), desc),
        }
        match snap_ids::<B, _, _>(&self.vb) {
            Ok(ids) => {
                if ids != self.mb {
                    sp.viol("type-reject", opsig, format!("source vector is {:?}, expected {:?}", ids, self.mb), desc);
                    self.mb = ids;
                }
            }
            Err(e) => sp.viol("type-reject", opsig, format!("source vector invalid: {e}"), desc),
        }
        if self.va.element_typeid() != TypeId::of::<A>() || self.va.element_layout() != Layout::new::<A>() {
            sp.viol("type-meta", opsig, "element_typeid / element_layout do not describe the element type".into(), desc);
        }
        let both: Vec<Id> = self.ma.iter().chain(self.mb.iter()).copied().collect();
        let sets: Vec<(u32, bool, &Vec<Id>)> = if A::TAG == B::TAG {
            vec![(A::TAG, A::TRACKED, &both)]
        } else {
            vec![(A::TAG, A::TRACKED, &self.ma), (B::TAG, B::TRACKED, &self.mb)]
        };
        for (tag, tracked, model) in sets {
            if !tracked {
                continue;
            }
            let live = reg::live_snapshot(tag);
            let mut vis = std::collections::BTreeMap::<Id, i64>::new();
            for i in model.iter() {
                *vis.entry(*i).or_insert(0) += 1;
            }
            if live != vis && !unspecified_a {
                sp.viol("type-reject", opsig, format!("live element instances {:?} differ from the reachable ones {:?} (a rejected value must be dropped exactly once)", live, vis), desc);
            } else if unspecified_a {
                for (i, n) in vis.iter() {
                    if live.get(i).copied().unwrap_or(0) < *n {
                        sp.viol("type-reject", opsig, format!("element id {i} visible {n}x but not that many live instances"), desc);
                    }
                }
            }
        }
        sp.drain_reg(opsig, desc);
    }
    fn expect_panic<R>(sp: &mut Sp, opsig: &str, desc: &str, r: Result<R, String>) {
        if r.is_ok() {
            sp.viol("type-admit", opsig, "a value of another runtime type was accepted (no panic)".into(), desc);
        }
    }
    fn expect_ok<R>(sp: &mut Sp, opsig: &str, desc: &str, r: Result<R, String>) -> Option<R> {
        match r {
            Ok(v) => Some(v),
            Err(m) => {
                sp.viol("type-reject", opsig, format!("a value of the right type was rejected: {m}"), desc);
                None
            }
        }
    }
}

#[cfg(feature = "alloc")]
fn c04_pair<A: Elem, B: Elem>(ctx: &mut Ctx, max_len: usize) {
    let name = format!("{}<-{}", A::NAME, B::NAME);
    let mut sp = Sp::new(ctx, "types", name.clone());
    sp.ctx.ordinal = 0;
    let same = TypeId::of::<A>() == TypeId::of::<B>();
    for len in 0..=max_len {
        // --- push / insert of every value-source kind
        let n_sources = 9;
        for src in 0..n_sources {
            for at in 0..=len + 1 {
                // at == len+1 encodes push
                if !sp.take() {
                    continue;
                }
                let mut p = Pair::<A, B>::new(len);
                let push = at == len + 1;
                let srcname = ["Wrapper", "Raw", "FakeVal", "PopHandle", "RemoveHandle", "SwapRemoveHandle", "DrainedElement", "LazyRef", "LazyOfHandle"][src];
                let opsig = format!("{}({srcname})", if push { "push" } else { "insert" });
                let desc = format!("{name}|len={len}|{opsig}@{at}");
                let id = p.id();
                let Pair { va, vb, mb, .. } = &mut p;
                let r = guarded(|| {
                    macro_rules! put {
                        ($val:expr) => {
                            if push { va.push($val) } else { va.insert(at, $val) }
                        };
                    }
                    match src {
                        0 => put!(AnyValueWrapper::new(B::make(id))),
                        1 => {
                            let mut slot = RawSlot::<B>::new(id);
                            let raw = unsafe { AnyValueRaw::new(slot.ptr(), size_of::<B>(), TypeId::of::<B>()) };
                            put!(raw);
                            slot.consumed();
                        }
                        2 => put!(crate::rig::FakeVal::new(B::make(id), TypeId::of::<B>())),
                        3 => put!(vb.pop().unwrap()),
                        4 => put!(vb.remove(0)),
                        5 => put!(vb.swap_remove(0)),
                        6 => {
                            let mut d = vb.drain(0..1);
                            let e = d.next().unwrap();
                            put!(e);
                        }
                        7 => put!(vb.at(1).lazy_clone()),
                        _ => {
                            let h = vb.remove(1);
                            put!(h.lazy_clone());
                        }
                    }
                });
                // model of the source vector: removal handles are consumed/destroyed either way
                let moved: Option<Id> = match src {
                    3 => mb.pop(),
                    4 | 6 => Some(mb.remove(0)),
                    5 => Some(mb.swap_remove(0)),
                    7 => Some(mb[1]),
                    8 => Some(mb.remove(1)),
                    _ => Some(id),
                };
                if same {
                    if Pair::<A, B>::expect_ok(&mut sp, &opsig, &desc, r).is_some() {
                        let pos = if push { p.ma.len() } else { at };
                        p.ma.insert(pos, moved.unwrap());
                    }
                    sp.ctx.stats.bump("accepted_controls", 1);
                } else {
                    Pair::<A, B>::expect_panic(&mut sp, &opsig, &desc, r);
                    sp.ctx.stats.bump("rejections", 1);
                }
                p.check(&mut sp, &opsig, &desc, false);
                drop(p);
                sp.drain_reg(&opsig, &desc);
                sp.done(&desc, true, &opsig);
            }
        }
        // --- splice with the foreign item at each position
        for k_total in 1..=3usize {
            for bad in 0..k_total {
                for (a, b) in [(0usize, 0usize), (0, len), (len / 2, len), (len, len)] {
                    for raw in [false, true] {
                        if !sp.take() {
                            continue;
                        }
                        let mut p = Pair::<A, B>::new(len);
                        let opsig = format!("splice({})", if raw { "Raw" } else { "FakeVal" });
                        let desc = format!("{name}|len={len}|{opsig} {a}..{b} {k_total} items, foreign@{bad}");
                        let ids: Vec<Id> = (0..k_total).map(|_| p.id()).collect();
                        let Pair { va, .. } = &mut p;
                        let r = guarded(|| {
                            if raw {
                                // items 0..bad are A values, item `bad` is a B value with B's type id
                                let mut sa: Vec<RawSlot<A>> = ids.iter().map(|i| RawSlot::<A>::new(*i)).collect();
                                let mut sb = RawSlot::<B>::new(ids[bad]);
                                let pb = sb.ptr();
                                let it = sa.iter_mut().enumerate().map(|(n, s)| {
                                    if n == bad {
                                        unsafe { AnyValueRaw::new(pb, size_of::<B>(), TypeId::of::<B>()) }
                                    } else {
                                        s.consumed();
                                        unsafe { AnyValueRaw::new(s.ptr(), size_of::<A>(), TypeId::of::<A>()) }
                                    }
                                });
                                let items: Vec<AnyValueRaw> = it.collect();
                                drop(va.splice(a..b, items));
                                if same {
                                    sb.consumed();
                                    // the A value at position `bad` was never offered
                                }
                                drop(sb);
                                drop(sa);
                            } else {
                                let items: Vec<crate::rig::FakeVal<A>> = ids
                                    .iter()
                                    .enumerate()
                                    .map(|(n, i)| crate::rig::FakeVal::new(A::make(*i), if n == bad { TypeId::of::<B>() } else { TypeId::of::<A>() }))
                                    .collect();
                                drop(va.splice(a..b, items));
                            }
                        });
                        if same {
                            if Pair::<A, B>::expect_ok(&mut sp, &opsig, &desc, r).is_some() {
                                // raw flavour: position `bad` holds the B(==A) value with the same id
                                let tail = p.ma.split_off(b);
                                p.ma.truncate(a);
                                p.ma.extend_from_slice(&ids);
                                p.ma.extend_from_slice(&tail);
                            }
                            sp.ctx.stats.bump("accepted_controls", 1);
                            // the never-offered A slot of the raw flavour is dropped by the harness: not visible
                            p.check(&mut sp, &opsig, &desc, false);
                        } else {
                            Pair::<A, B>::expect_panic(&mut sp, &opsig, &desc, r);
                            sp.ctx.stats.bump("rejections", 1);
                            // after a rejected splice the vector must still be valid (contents unspecified)
                            p.check(&mut sp, &opsig, &desc, true);
                            // ... and usable
                            let id = p.id();
                            let r2 = guarded(|| {
                                p.va.push(AnyValueWrapper::new(A::make(id)));
                                let h = p.va.pop().unwrap();
                                h.downcast::<A>().map(|t| t.probe())
                            });
                            match r2 {
                                Ok(Some(Ok(i))) if i == id => {}
                                other => sp.viol("type-reject", &opsig, format!("vector unusable after a rejected splice: push/pop gave {other:?}"), &desc),
                            }
                        }
                        // leaks are permitted after a rejected splice: forget about what is left
                        drop(p);
                        let _ = reg::take_violations().into_iter().filter(|v| v.kind != "leak").map(|v| sp.viol(v.kind, &opsig, v.detail, &desc)).count();
                        sp.done(&desc, true, &opsig);
                    }
                }
            }
        }
        // --- swap and downcasts need at least one element
        if len == 0 {
            continue;
        }
        // --- every value handle reports the real element type: value_typeid(), size(), as_bytes().len()
        for probe in 0..9 {
            if !sp.take() {
                continue;
            }
            let mut p = Pair::<A, B>::new(len);
            let id = p.id();
            let names = ["ElementRef", "ElementMut", "PopHandle", "RemoveHandle", "SwapRemoveHandle", "DrainedElement", "LazyClone(ElementRef)", "LazyClone(RemoveHandle)", "Wrapper+Raw"];
            let opsig = format!("meta({})", names[probe]);
            let desc = format!("{name}|len={len}|{opsig}");
            let want = (TypeId::of::<A>(), size_of::<A>(), size_of::<A>());
            fn meta<H: AnyValue>(h: &H) -> (TypeId, usize, usize) {
                (h.value_typeid(), h.size(), h.as_bytes().len())
            }
            let Pair { va, ma, .. } = &mut p;
            let r = guarded(|| match probe {
                0 => meta(&*va.at(0)),
                1 => meta(&*va.at_mut(0)),
                2 => meta(&va.pop().unwrap()),
                3 => meta(&va.remove(0)),
                4 => meta(&va.swap_remove(0)),
                5 => {
                    let mut d = va.drain(0..1);
                    let e = d.next().unwrap();
                    meta(&e)
                }
                6 => {
                    let e = va.at(0);
                    let l = e.lazy_clone();
                    meta(&l)
                }
                7 => {
                    let h = va.remove(0);
                    let l = h.lazy_clone();
                    let l2 = l.lazy_clone();
                    meta(&l2)
                }
                _ => {
                    let w = AnyValueWrapper::new(A::make(id));
                    let m1 = meta(&w);
                    drop(w);
                    let mut slot = RawSlot::<A>::new(id);
                    let raw = unsafe { AnyValueRaw::new(slot.ptr(), size_of::<A>(), TypeId::of::<A>()) };
                    let m2 = meta(&raw);
                    if m1 == m2 { m1 } else { (TypeId::of::<()>(), usize::MAX, usize::MAX) }
                }
            });
            match probe {
                2 => {
                    ma.pop();
                }
                3 | 5 | 7 => {
                    ma.remove(0);
                }
                4 => {
                    ma.swap_remove(0);
                }
                _ => {}
            }
            match r {
                Ok(got) => {
                    if got != want {
                        sp.viol("type-meta", &opsig, format!(
                            "handle reports (type id ok: {}, size {}, as_bytes().len() {}) for an element of size {}",
                            got.0 == want.0, got.1, got.2, want.1), &desc);
                    }
                }
                Err(m) => sp.viol("type-meta", &opsig, format!("panicked: {m}"), &desc),
            }
            sp.ctx.stats.bump("accepted_controls", 1);
            p.check(&mut sp, &opsig, &desc, false);
            drop(p);
            sp.drain_reg(&opsig, &desc);
            sp.done(&desc, true, &opsig);
        }
        for probe in 0..16 {
            if !sp.take() {
                continue;
            }
            let mut p = Pair::<A, B>::new(len);
            let id = p.id();
            let names = [
                "ElementMut.swap(Wrapper)", "Wrapper.swap(ElementMut)", "ElementMut.swap(ElementMut)", "ElementMut.swap(Raw)", "PopHandle.swap(Wrapper)",
                "vec.downcast_ref", "vec.downcast_mut", "ElementRef.downcast_ref", "ElementMut.downcast_mut", "AnyValue::downcast_ref(ElementRef)",
                "PopHandle.downcast", "RemoveHandle.downcast_ref/mut", "Wrapper.downcast", "Raw.downcast_ref", "LazyClone.downcast", "DrainedElement.downcast",
            ];
            let opsig = names[probe].to_string();
            let desc = format!("{name}|len={len}|{opsig}");
            let Pair { va, vb, ma, mb, .. } = &mut p;
            let mut answer: Option<bool> = None; // Some(true) = the foreign request was answered Some
            let r = guarded(|| match probe {
                0 => {
                    let mut w = AnyValueWrapper::new(B::make(id));
                    va.at_mut(0).swap(&mut w);
                }
                1 => {
                    let mut w = AnyValueWrapper::new(B::make(id));
                    w.swap(&mut *va.at_mut(0));
                }
                2 => {
                    let mut a = va.at_mut(0);
                    let mut b = vb.at_mut(0);
                    a.swap(&mut *b);
                }
                3 => {
                    let mut slot = RawSlot::<B>::new(id);
                    let mut raw = unsafe { AnyValueRaw::new(slot.ptr(), size_of::<B>(), TypeId::of::<B>()) };
                    va.at_mut(0).swap(&mut raw);
                }
                4 => {
                    let mut w = AnyValueWrapper::new(B::make(id));
                    let mut h = va.pop().unwrap();
                    h.swap(&mut w);
                }
                5 => answer = Some(va.downcast_ref::<B>().is_some()),
                6 => answer = Some(va.downcast_mut::<B>().is_some()),
                7 => answer = Some(va.at(0).downcast_ref::<B>().is_some()),
                8 => answer = Some(va.at_mut(0).downcast_mut::<B>().is_some()),
                9 => {
                    let e = va.at(0);
                    let x = AnyValue::downcast_ref::<B>(&*e).is_some();
                    let mut m = va.at_mut(0);
                    let y = AnyValueMut::downcast_mut::<B>(&mut *m).is_some();
                    answer = Some(x || y)
                }
                10 => answer = Some(va.pop().unwrap().downcast::<B>().is_some()),
                11 => {
                    let mut h = va.remove(0);
                    let x = h.downcast_ref::<B>().is_some();
                    let y = h.downcast_mut::<B>().is_some();
                    answer = Some(x || y)
                }
                12 => answer = Some(AnyValueWrapper::new(A::make(id)).downcast::<B>().is_some()),
                13 => {
                    let mut slot = RawSlot::<A>::new(id);
                    let raw = unsafe { AnyValueRaw::new(slot.ptr(), size_of::<A>(), TypeId::of::<A>()) };
                    answer = Some(raw.downcast_ref::<B>().is_some())
                }
                14 => {
                    let e = va.at(0);
                    answer = Some(e.lazy_clone().downcast::<B>().is_some())
                }
                _ => {
                    let mut d = va.drain(0..1);
                    let e = d.next().unwrap();
                    answer = Some(e.downcast::<B>().is_some())
                }
            });
            // model effects
            match probe {
                0 | 1 | 3 if same => ma[0] = id,
                2 if same => std::mem::swap(&mut ma[0], &mut mb[0]),
                4 => {
                    ma.pop();
                }
                10 => {
                    ma.pop();
                }
                11 | 15 => {
                    ma.remove(0);
                }
                _ => {}
            }
            if probe <= 4 {
                if same {
                    Pair::<A, B>::expect_ok(&mut sp, &opsig, &desc, r);
                    sp.ctx.stats.bump("accepted_controls", 1);
                } else {
                    Pair::<A, B>::expect_panic(&mut sp, &opsig, &desc, r);
                    sp.ctx.stats.bump("rejections", 1);
                }
            } else {
                if let Err(m) = &r {
                    sp.viol("type-reject", &opsig, format!("downcast request panicked: {m}"), &desc);
                }
                match (answer, same) {
                    (Some(true), false) => sp.viol("type-admit", &opsig, "a downcast to another type answered Some".into(), &desc),
                    (Some(false), true) => sp.viol("type-reject", &opsig, "a downcast to the real type answered None".into(), &desc),
                    _ => {}
                }
                if same {
                    sp.ctx.stats.bump("accepted_controls", 1);
                } else {
                    sp.ctx.stats.bump("rejections", 1);
                }
                // probe 14 on the real type clones once: that instance was dropped again
            }
            p.check(&mut sp, &opsig, &desc, false);
            drop(p);
            sp.drain_reg(&opsig, &desc);
            sp.done(&desc, true, &opsig);
        }
    }
}

/// Plain (non-instrumented) same-layout types: u64 / i64 / f64 / [u8; 8].
#[cfg(feature = "alloc")]
fn c04_plain<A: 'static + Copy + PartialEq + std::fmt::Debug + Clone, B: 'static + Copy + std::fmt::Debug + Clone>(
    ctx: &mut Ctx,
    an: &str,
    bn: &str,
    a_vals: [A; 3],
    b_val: B,
) {
    let name = format!("{an}<-{bn}");
    let mut sp = Sp::new(ctx, "types-plain", name.clone());
    sp.ctx.ordinal = 0;
    let same = TypeId::of::<A>() == TypeId::of::<B>();
    for len in 0..=3usize {
        for probe in 0..8 {
            if !sp.take() {
                continue;
            }
            let mut v: AnyVec<dyn Cloneable> = AnyVec::new::<A>();
            for x in &a_vals[..len] {
                v.downcast_mut::<A>().unwrap().push(*x);
            }
            let before: Vec<A> = v.downcast_ref::<A>().unwrap().as_slice().to_vec();
            let names = ["push(Wrapper)", "insert(0,Wrapper)", "push(Raw)", "splice(Wrapper)", "vec.downcast_ref", "vec.downcast_mut", "ElementRef.downcast_ref", "ElementMut.swap(Wrapper)"];
            let opsig = names[probe].to_string();
            let desc = format!("{name}|len={len}|{opsig}");
            if probe >= 6 && len == 0 {
                continue;
            }
            let mut answer = None;
            let mut bv = b_val;
            let r = guarded(|| match probe {
                0 => v.push(AnyValueWrapper::new(b_val)),
                1 => v.insert(0, AnyValueWrapper::new(b_val)),
                2 => v.push(unsafe { AnyValueRaw::new(std::ptr::NonNull::from(&mut bv).cast(), size_of::<B>(), TypeId::of::<B>()) }),
                3 => drop(v.splice(0..len.min(1), [AnyValueWrapper::new(b_val)])),
                4 => answer = Some(v.downcast_ref::<B>().is_some()),
                5 => answer = Some(v.downcast_mut::<B>().is_some()),
                6 => answer = Some(v.at(0).downcast_ref::<B>().is_some()),
                _ => {
                    let mut w = AnyValueWrapper::new(b_val);
                    v.at_mut(0).swap(&mut w)
                }
            });
            if !same {
                sp.ctx.stats.bump("rejections", 1);
                if probe <= 3 || probe == 7 {
                    if r.is_ok() {
                        sp.viol("type-admit", &opsig, "a value of another runtime type was accepted (no panic)".into(), &desc);
                    }
                    let after: Option<Vec<A>> = v.downcast_ref::<A>().map(|t| t.as_slice().to_vec());
                    if probe != 3 && after.as_ref() != Some(&before) {
                        sp.viol("type-reject", &opsig, format!("vector changed by a rejected value: {:?} -> {:?}", before, after), &desc);
                    }
                } else if answer == Some(true) {
                    sp.viol("type-admit", &opsig, "a downcast to another type answered Some".into(), &desc);
                }
            } else {
                sp.ctx.stats.bump("accepted_controls", 1);
                if r.is_err() {
                    sp.viol("type-reject", &opsig, "a value of the right type was rejected".into(), &desc);
                }
                if answer == Some(false) {
                    sp.viol("type-reject", &opsig, "a downcast to the real type answered None".into(), &desc);
                }
            }
            if v.element_typeid() != TypeId::of::<A>() || v.element_layout() != Layout::new::<A>() {
                sp.viol("type-meta", &opsig, "element_typeid / element_layout do not describe the element type".into(), &desc);
            }
            sp.done(&desc, true, &opsig);
        }
    }
}

#[cfg(feature = "alloc")]
pub fn c04(ctx: &mut Ctx) {
    monalloc::set_mode(monalloc::MODE_OFF);
    let l = if ctx.thorough() { 4 } else { 3 };
    macro_rules! pairs {
        ($($a:ty, $b:ty);*) => { $( c04_pair::<$a, $b>(ctx, l); )* };
    }
    pairs!(W8d, W8d2; W8d2, W8d; W8d, W8d; W8d, W8; W8, W8d; W8, W8; S16d, S16d2; S16d2, S16d; S16d, S16d; S16d, Q16; B8, W8d; W8d, B8; B8, B8; S24d, S24d; P3d, P3; U1d, U1; Z0d, Z0; Z0, Z0d; Z0d, Z0d);
    macro_rules! plain {
        ($(($a:ty, $an:expr, $av:expr), ($b:ty, $bn:expr, $bv:expr));*) => { $( c04_plain::<$a, $b>(ctx, $an, $bn, $av, $bv); )* };
    }
    plain!(
        (u64, "u64", [1u64, 2, 3]), (i64, "i64", 7i64);
        (u64, "u64", [1u64, 2, 3]), (f64, "f64", 7.0f64);
        (u64, "u64", [1u64, 2, 3]), ([u8; 8], "[u8;8]", [7u8; 8]);
        (u64, "u64", [1u64, 2, 3]), (u64, "u64", 7u64);
        (i64, "i64", [1i64, 2, 3]), (u64, "u64", 7u64);
        (i64, "i64", [1i64, 2, 3]), (f64, "f64", 7.0f64);
        (i64, "i64", [1i64, 2, 3]), ([u8; 8], "[u8;8]", [7u8; 8]);
        (i64, "i64", [1i64, 2, 3]), (i64, "i64", 7i64);
        (f64, "f64", [1.0f64, 2.0, 3.0]), (u64, "u64", 7u64);
        (f64, "f64", [1.0f64, 2.0, 3.0]), (i64, "i64", 7i64);
        (f64, "f64", [1.0f64, 2.0, 3.0]), ([u8; 8], "[u8;8]", [7u8; 8]);
        (f64, "f64", [1.0f64, 2.0, 3.0]), (f64, "f64", 7.0f64);
        ([u8; 8], "[u8;8]", [[1u8; 8], [2u8; 8], [3u8; 8]]), (u64, "u64", 7u64);
        ([u8; 8], "[u8;8]", [[1u8; 8], [2u8; 8], [3u8; 8]]), (i64, "i64", 7i64);
        ([u8; 8], "[u8;8]", [[1u8; 8], [2u8; 8], [3u8; 8]]), (f64, "f64", 7.0f64);
        ([u8; 8], "[u8;8]", [[1u8; 8], [2u8; 8], [3u8; 8]]), ([u8; 8], "[u8;8]", [7u8; 8])
    );
}
#[cfg(not(feature = "alloc"))]
pub fn c04(_ctx: &mut Ctx) {}

// ---------------------------------------------------------------------------------------------
// C08: `Clone::clone_from` - the destination takes over the source's element type and everything that goes with it

#[cfg(feature = "alloc")]
fn c08_clone_from_pair<A: Elem, B: Elem>(ctx: &mut Ctx, max_len: usize) {
    if pointer_free_only() && (A::HEAP || B::HEAP) {
        return;
    }
    let name = format!("{}<-{}", A::NAME, B::NAME);
    let mut sp = Sp::new(ctx, "clone-from", name.clone());
    sp.ctx.ordinal = 0;
    for la in 0..=max_len {
        for spare in [false, true] {
            if !sp.take() {
                continue;
            }
            let mut p = Pair::<A, B>::new(la);
            if spare {
                p.va.reserve(5);
            }
            let opsig = "clone_from";
            let desc = format!("{name}|len={la}{}|clone_from(3 elements)", if spare { "+spare" } else { "" });
            let mb = p.mb.clone();
            let want_log = |n: usize| -> Vec<(u32, Id)> {
                let mut w: Vec<(u32, Id)> = Vec::new();
                for _ in 0..n {
                    w.extend(mb.iter().map(|i| (B::TAG, *i)));
                }
                w.sort();
                w
            };
            let sorted_log = || {
                let mut l = reg::take_clone_log();
                l.sort();
                l
            };
            let _ = reg::take_clone_log();
            let Pair { va, vb, .. } = &mut p;
            monalloc::window_open();
            let r = guarded(|| va.clone_from(&*vb));
            monalloc::window_reset();
            sp.drain_alloc(opsig, &desc);
            // storage of the destination is aligned for the element type it now holds
            let base = p.va.as_bytes().as_ptr() as usize;
            if r.is_ok() && base % align_of::<B>() != 0 {
                sp.viol("align", opsig, format!("after clone_from the destination's storage pointer {base:#x} is not aligned to {} (its new element type)", align_of::<B>()), &desc);
            }
            if let Err(m) = r {
                sp.viol("model", opsig, format!("clone_from panicked: {m}"), &desc);
                std::mem::forget(p);
                sp.done(&desc, true, opsig);
                continue;
            }
            // 1. the destination is a clone of the source
            let check_is_clone = |sp: &mut Sp, v: &AnyVec<dyn Cloneable>, what: &str, want: &[Id]| {
                if v.element_typeid() != TypeId::of::<B>() || v.element_layout() != Layout::new::<B>() {
                    sp.viol("meta", opsig, format!("{what}: element_typeid/element_layout are not those of the source's element type"), &desc);
                    return false;
                }
                match snap_ids::<B, _, _>(v) {
                    Ok(ids) if ids == want => true,
                    Ok(ids) => {
                        sp.viol("model", opsig, format!("{what} is {:?}, the source is {:?}", ids, want), &desc);
                        false
                    }
                    Err(e) => {
                        sp.viol("garbage", opsig, format!("{what} invalid: {e}"), &desc);
                        false
                    }
                }
            };
            let ok = check_is_clone(&mut sp, &p.va, "the destination of clone_from", &mb);
            let log = sorted_log();
            if log != want_log(1) {
                sp.viol("clone-count", opsig, format!("clone_from made the Clone::clone calls {:?}, expected {:?}", log, want_log(1)), &desc);
            }
            if !ok {
                // do not touch a vector of unknown content again
                std::mem::forget(p);
                let _ = reg::take_violations();
                sp.done(&desc, true, opsig);
                continue;
            }
            // 2. ... and so is everything derived from it: second-generation clone, lazy clones, an empty clone that accepts B values
            let second = guarded(|| p.va.clone());
            match second {
                Ok(c) => {
                    let ok2 = check_is_clone(&mut sp, &c, "a clone of the destination", &mb);
                    let log = sorted_log();
                    if log != want_log(1) {
                        sp.viol("clone-count", opsig, format!("cloning the destination made the Clone::clone calls {:?}, expected {:?}", log, want_log(1)), &desc);
                    }
                    if ok2 { drop(c) } else { std::mem::forget(c) }
                }
                Err(m) => sp.viol("model", opsig, format!("cloning the destination panicked: {m}"), &desc),
            }
            let third = guarded(|| {
                let mut e = p.va.clone_empty();
                e.push(p.va.at(0).lazy_clone());
                e.insert(0, p.va.at(2).lazy_clone());
                e
            });
            match third {
                Ok(e) => {
                    let ok3 = check_is_clone(&mut sp, &e, "an empty clone of the destination after two lazy-clone insertions", &[mb[2], mb[0]]);
                    let mut log = reg::take_clone_log();
                    log.sort();
                    let mut want = vec![(B::TAG, mb[0]), (B::TAG, mb[2])];
                    want.sort();
                    if log != want {
                        sp.viol("clone-count", opsig, format!("lazy clones out of the destination made the Clone::clone calls {:?}, expected {:?}", log, want), &desc);
                    }
                    if ok3 { drop(e) } else { std::mem::forget(e) }
                }
                Err(m) => sp.viol("model", opsig, format!("lazy clones out of the destination panicked: {m}"), &desc),
            }
            // 3. independence: mutating the destination leaves the source alone; everything is destroyed exactly once
            let r = guarded(|| {
                let h = p.va.swap_remove(0);
                drop(h);
                p.va.clear();
            });
            if let Err(m) = r {
                sp.viol("model", opsig, format!("emptying the destination panicked: {m}"), &desc);
            }
            match snap_ids::<B, _, _>(&p.vb) {
                Ok(ids) if ids == mb => {}
                other => sp.viol("shared-storage", opsig, format!("the source changed when the destination was emptied: {other:?}, expected {mb:?}"), &desc),
            }
            drop(p);
            for (tag, tracked) in [(A::TAG, A::TRACKED), (B::TAG, B::TRACKED)] {
                if tracked && reg::live_total(tag) != 0 {
                    sp.viol("leak", opsig, format!("{} element instance(s) still alive after everything was dropped: {:?}", reg::live_total(tag), reg::live_snapshot(tag)), &desc);
                }
            }
            sp.drain_reg(opsig, &desc);
            sp.done(&desc, true, opsig);
        }
    }
    // a destination that is not empty and too small for the source (same element type: storage may be reused), and a
    // `Clone::clone` that panics at the k-th element: the destination must stay a valid vector
    if TypeId::of::<A>() == TypeId::of::<B>() {
        for (la, lb) in [(2usize, 3usize), (1, 3), (3, 3), (3, 1), (3, 0)] {
            for fault in 0..=lb as u64 {
                if !sp.take() {
                    continue;
                }
                if fault > 0 && A::HEAP && sp.ctx.tool_mode {
                    // a clone_from interrupted by a panic may leak what it had cloned so far (permitted): for elements that own
                    // heap memory that is a real leak in the eyes of the leak detectors
                    continue;
                }
                reg::reset();
                let opsig = if fault == 0 { "clone_from(same type)" } else { "clone_from(same type)+panic in Clone" };
                let desc = format!("{name}|dst len={la} (tight) <- src len={lb}|fault@{fault}");
                let mask = if A::ID_BITS == 0 { 0 } else { (1u64 << A::ID_BITS.min(32)) - 1 };
                let mut dst: AnyVec<dyn Cloneable> = AnyVec::new::<A>();
                let mut src: AnyVec<dyn Cloneable> = AnyVec::new::<A>();
                for i in 0..la as u64 {
                    dst.push(AnyValueWrapper::new(A::make((i + 1) & mask)));
                }
                dst.shrink_to_fit();
                for i in 0..lb as u64 {
                    src.push(AnyValueWrapper::new(A::make((i + 11) & mask)));
                }
                let want: Vec<Id> = (0..lb as u64).map(|i| (i + 11) & mask).collect();
                if fault > 0 {
                    reg::fault_arm(fault);
                }
                monalloc::window_open();
                let r = guarded(|| dst.clone_from(&src));
                monalloc::window_reset();
                let (_, fired, _) = reg::fault_end();
                sp.drain_alloc(opsig, &desc);
                if dst.len() > dst.capacity() {
                    sp.viol("len>cap", opsig, format!("after clone_from the destination has len {} > capacity {}", dst.len(), dst.capacity()), &desc);
                    std::mem::forget(dst);
                    let _ = reg::take_violations();
                    sp.done(&desc, true, opsig);
                    continue;
                }
                match (&r, snap_ids::<A, _, _>(&dst)) {
                    (Ok(()), Ok(ids)) if ids == want && !fired => {}
                    (Ok(()), other) if !fired => sp.viol("model", opsig, format!("the destination is {other:?}, the source is {want:?}"), &desc),
                    // after a panic: any valid vector will do (every visible element must be a live one)
                    (_, Ok(ids)) => {
                        if A::TRACKED {
                            let live = reg::live_snapshot(A::TAG);
                            let mut vis = std::collections::BTreeMap::<Id, i64>::new();
                            for i in ids.iter().chain(want.iter()) {
                                *vis.entry(*i).or_insert(0) += 1;
                            }
                            for (i, n) in vis {
                                if live.get(&i).copied().unwrap_or(0) < n {
                                    sp.viol("dead-visible", opsig, format!("after the panic element id {i} is visible {n} time(s) but only {} live instance(s) exist", live.get(&i).copied().unwrap_or(0)), &desc);
                                }
                            }
                        }
                    }
                    (_, Err(e)) => sp.viol("garbage", opsig, format!("after the panic the destination is not a valid vector: {e}"), &desc),
                }
                if fired {
                    sp.ctx.stats.bump("faults_injected", 1);
                }
                // still usable, and everything is destroyed exactly once
                let r2 = guarded(|| {
                    dst.push(AnyValueWrapper::new(A::make(20 & mask)));
                    let h = dst.pop().unwrap();
                    h.downcast::<A>().map(|t| t.probe())
                });
                if !matches!(r2, Ok(Some(Ok(i))) if i == 20 & mask) {
                    sp.viol("model", opsig, format!("push/pop on the destination afterwards gave {r2:?}"), &desc);
                }
                drop(dst);
                drop(src);
                if A::TRACKED && reg::live_total(A::TAG) != 0 && !fired {
                    sp.viol("leak", opsig, format!("{} instance(s) alive after everything was dropped", reg::live_total(A::TAG)), &desc);
                }
                sp.drain_reg(opsig, &desc);
                sp.done(&desc, true, opsig);
            }
        }
    }
}

#[cfg(feature = "alloc")]
pub fn c08_clone_from(ctx: &mut Ctx) {
    // the allocator monitor watches the storage hand-over (layouts, guard zones, released blocks)
    monalloc::set_mode(if ctx.tool_mode { monalloc::MODE_OFF } else { monalloc::MODE_GUARD });
    let _ = monalloc::drain_events();
    let l = if ctx.thorough() { 5 } else { 3 };
    macro_rules! pairs {
        ($($a:ty, $b:ty);*) => { $( c08_clone_from_pair::<$a, $b>(ctx, l); )* };
    }
    // same layout / different type, same type, different layouts, with and without drop glue, zero-sized
    pairs!(W8d, W8d2; W8d2, W8d; W8d, W8d; W8d, W8; W8, W8d; S16d, S16d2; S16d2, S16d; S16d, Q16; Q16, S16d; B8, W8d; W8d, B8; B8, B8; S24d, S24d;
           P3d, P3; U1d, U1; U1, U1d; Z0d, Z0; Z0, Z0d; Z0d, Z0d; W8d, S16d; S16d, W8d; L160d, U1d; U1d, L160d; A32d, W8d; Z0d, W8d; W8d, Z0d;
           U1d, U1d; L160d, L160d; A32d, A32d; Q16, Q16; S16d, A32d);
    monalloc::set_mode(monalloc::MODE_OFF);
}
#[cfg(not(feature = "alloc"))]
pub fn c08_clone_from(_ctx: &mut Ctx) {}

// ---------------------------------------------------------------------------------------------
// C12: views, alignment, placement

#[repr(C, align(128))]
struct Arena([MaybeUninit<u8>; 8192]);

fn c12_one<T: Elem + SatisfyTraits<Tr>, M: MemCaps, Tr: ?Sized + TrCaps>(ctx: &mut Ctx, l: usize, placements: usize) {
    let cfg = format!("{}:{}:{}", T::NAME, M::NAME, Tr::NAME);
    let mut sp = Sp::new(ctx, "views", cfg.clone());
    sp.ctx.ordinal = 0;
    let sz = size_of::<T>();
    let al = align_of::<T>();
    let va = align_of::<AnyVec<Tr, M>>();
    let vsz = size_of::<AnyVec<Tr, M>>();
    assert!(vsz + 256 <= 8192, "HARNESS: arena too small");
    let fixed = M::fixed_cap(sz);
    let mut arena = Box::new(Arena([MaybeUninit::uninit(); 8192]));
    let offsets: Vec<usize> = (0..256).step_by(va).take(placements.max(1)).collect();
    for off in offsets {
        for len in 0..=l {
            for extra in [0usize, 1, 3] {
                if !sp.take() {
                    continue;
                }
                reg::reset();
                let want_cap = len + extra;
                if let Some(c) = fixed {
                    if want_cap > c {
                        continue;
                    }
                }
                let opsig = "views".to_string();
                let desc = format!("{cfg}|placed@+{off}|len={len},cap>={want_cap}");
                let p = unsafe { arena.0.as_mut_ptr().add(off) as *mut AnyVec<Tr, M> };
                unsafe { p.write(M::new_vec::<Tr, T>(want_cap)) };
                let v: &mut AnyVec<Tr, M> = unsafe { &mut *p };
                let base = v.as_bytes().as_ptr() as usize;
                sp.ctx.stats.bump("placements_checked", 1);
                if base % al != 0 {
                    let sig = format!("storage-misaligned:{}:align{}", M::NAME, al);
                    sp.viol("align", &sig, format!("empty vector placed at {:#x}: storage pointer {:#x} % {} = {}", p as usize, base, al, base % al), &desc);
                    // no element access at a misaligned placement (it would be UB in the harness)
                    unsafe { std::ptr::drop_in_place(p) };
                    sp.done(&desc, true, &opsig);
                    continue;
                }
                let r = guarded(|| {
                    let mut notes: Vec<String> = Vec::new();
                    let mut ids: Vec<Id> = Vec::new();
                    for i in 0..len {
                        let id = (i + 1) as Id % (1u64 << T::ID_BITS.clamp(1, 32)).max(2);
                        let id = if T::ID_BITS == 0 { 0 } else { id };
                        v.downcast_mut::<T>().expect("typed view").push(T::make(id));
                        ids.push(id);
                    }
                    let cap = v.capacity();
                    let base = v.as_bytes().as_ptr() as usize;
                    if base % al != 0 {
                        notes.push(format!("storage pointer {base:#x} misaligned for {al} after pushes"));
                        return notes;
                    }
                    // byte views
                    let b = v.as_bytes();
                    if b.len() != len * sz {
                        notes.push(format!("as_bytes().len()={} expected {}", b.len(), len * sz));
                    }
                    let typed_ptr = v.downcast_ref::<T>().unwrap().as_slice().as_ptr() as usize;
                    let typed_ptr2 = v.downcast_ref::<T>().unwrap().as_ptr() as usize;
                    if sz != 0 && (typed_ptr != base || typed_ptr2 != base) {
                        notes.push(format!("typed slice at {typed_ptr:#x} / as_ptr {typed_ptr2:#x} but byte view at {base:#x}"));
                    }
                    if b.len() == len * sz {
                        let tb = unsafe { std::slice::from_raw_parts(typed_ptr as *const u8, len * sz) };
                        if tb != v.as_bytes() {
                            notes.push("as_bytes() content differs from the elements' bytes".into());
                        }
                    }
                    let bm = v.as_bytes_mut();
                    if bm.as_ptr() as usize != base || bm.len() != len * sz {
                        notes.push(format!("as_bytes_mut() is [{:#x}; {}] expected [{:#x}; {}]", bm.as_ptr() as usize, bm.len(), base, len * sz));
                    }
                    {
                        let mut tv = v.downcast_mut::<T>().unwrap();
                        let ms = tv.as_mut_slice();
                        if sz != 0 && (ms.as_ptr() as usize != base || ms.len() != len) {
                            notes.push("as_mut_slice() does not alias the byte view".into());
                        }
                        let mp = tv.as_mut_ptr() as usize;
                        if sz != 0 && mp != base {
                            notes.push("typed as_mut_ptr() differs from the byte view base".into());
                        }
                    }
                    // spare views
                    let spare_cap = cap - len;
                    let (sp_ptr, sp_len) = {
                        let s = v.spare_bytes_mut();
                        (s.as_ptr() as usize, s.len())
                    };
                    if cap != usize::MAX {
                        if sp_ptr != base + len * sz {
                            notes.push(format!("spare_bytes_mut() starts at base+{} expected base+{}", sp_ptr.wrapping_sub(base), len * sz));
                        }
                        if sp_len != spare_cap * sz {
                            notes.push(format!("spare_bytes_mut().len()={} expected {}", sp_len, spare_cap * sz));
                        }
                        let mut tv = v.downcast_mut::<T>().unwrap();
                        let s = tv.spare_capacity_mut();
                        if sz != 0 && s.as_ptr() as usize != base + len * sz {
                            notes.push(format!("spare_capacity_mut() starts at base+{} expected base+{}", (s.as_ptr() as usize).wrapping_sub(base), len * sz));
                        }
                        if s.len() != spare_cap {
                            notes.push(format!("spare_capacity_mut().len()={} expected {}", s.len(), spare_cap));
                        }
                    }
                    // write into spare capacity, then set_len
                    let k = spare_cap.min(2);
                    if k > 0 && cap != usize::MAX && notes.is_empty() {
                        {
                            let mut tv = v.downcast_mut::<T>().unwrap();
                            let s = tv.spare_capacity_mut();
                            let id = if T::ID_BITS == 0 { 0 } else { 40 };
                            s[0].write(T::make(id));
                            ids.push(id);
                        }
                        if k == 2 {
                            // second one through the byte view
                            let id = if T::ID_BITS == 0 { 0 } else { 41 };
                            let val = ManuallyDrop::new(T::make(id));
                            let s = v.spare_bytes_mut();
                            if s.len() >= 2 * sz {
                                unsafe { std::ptr::copy_nonoverlapping(&*val as *const T as *const u8, s.as_mut_ptr().add(sz) as *mut u8, sz) };
                                ids.push(id);
                            } else {
                                drop(ManuallyDrop::into_inner(val));
                            }
                        }
                        let new_len = ids.len();
                        // alternate between the erased and the typed set_len
                        if (len + extra) % 2 == 0 {
                            unsafe { v.set_len(new_len) };
                        } else {
                            unsafe {
                                let mut tv = v.downcast_mut::<T>().unwrap();
                                tv.set_len(new_len);
                            }
                        }
                        if v.len() != new_len {
                            notes.push(format!("set_len({new_len}) with capacity {cap} left len {}", v.len()));
                            // the written values were not adopted: drop them here so the registry stays exact
                            unsafe { v.set_len(new_len) };
                        }
                        match snap_ids::<T, _, _>(v) {
                            Ok(got) => {
                                if got != ids {
                                    notes.push(format!("after writing the spare capacity and set_len the vector is {:?}, expected {:?}", got, ids));
                                }
                            }
                            Err(e) => notes.push(format!("after set_len: {e}")),
                        }
                        // a typed set_len back and forth
                        unsafe {
                            let mut tv = v.downcast_mut::<T>().unwrap();
                            tv.set_len(new_len);
                        }
                    } else {
                        match snap_ids::<T, _, _>(v) {
                            Ok(got) => {
                                if got != ids {
                                    notes.push(format!("vector is {:?}, expected {:?}", got, ids));
                                }
                            }
                            Err(e) => notes.push(e),
                        }
                    }
                    notes
                });
                match r {
                    Ok(notes) => {
                        for n in notes {
                            let kind = if n.contains("misaligned") { "align" } else { "view" };
                            sp.viol(kind, if n.contains("spare") { "spare-view" } else { "byte-view" }, n, &desc);
                        }
                    }
                    Err(m) => sp.viol("view", "views", format!("panicked: {m}"), &desc),
                }
                let _ = guarded(|| unsafe { std::ptr::drop_in_place(p) });
                if T::TRACKED {
                    let live = reg::live_total(T::TAG);
                    if live != 0 {
                        sp.viol("view", "views", format!("{live} element instance(s) alive after the vector was dropped"), &desc);
                    }
                }
                sp.drain_reg(&opsig, &desc);
                sp.done(&desc, true, &opsig);
            }
        }
    }
}

pub fn c12(ctx: &mut Ctx) {
    monalloc::set_mode(monalloc::MODE_OFF);
    hvcore::guard::set_tool_mode(ctx.tool_mode);
    let l = if ctx.thorough() { 7 } else { 4 };
    type Cl = dyn Cloneable;
    macro_rules! each_layout {
        ($m:ty, $pl:expr) => {
            c12_one::<Z0, $m, Cl>(ctx, l, $pl);
            c12_one::<Z0d, $m, Cl>(ctx, l, $pl);
            c12_one::<Z0a64, $m, Cl>(ctx, l, $pl);
            c12_one::<U1, $m, Cl>(ctx, l, $pl);
            c12_one::<U1d, $m, Cl>(ctx, l, $pl);
            c12_one::<U2, $m, Cl>(ctx, l, $pl);
            c12_one::<P3, $m, Cl>(ctx, l, $pl);
            c12_one::<P3d, $m, Cl>(ctx, l, $pl);
            c12_one::<W8, $m, Cl>(ctx, l, $pl);
            c12_one::<W8d, $m, Cl>(ctx, l, $pl);
            c12_one::<B8, $m, Cl>(ctx, l, $pl);
            c12_one::<T12, $m, Cl>(ctx, l, $pl);
            c12_one::<T12d, $m, Cl>(ctx, l, $pl);
            c12_one::<S16d, $m, Cl>(ctx, l, $pl);
            c12_one::<Q16, $m, Cl>(ctx, l, $pl);
            c12_one::<S24d, $m, Cl>(ctx, l, $pl);
            c12_one::<A32d, $m, Cl>(ctx, l, $pl);
            c12_one::<A64d, $m, Cl>(ctx, l, $pl);
            c12_one::<L160d, $m, Cl>(ctx, l, $pl);
            c12_one::<M40d, $m, Cl>(ctx, l, $pl);
            c12_one::<H72d, $m, Cl>(ctx, l, $pl);
        };
    }
    #[cfg(feature = "alloc")]
    {
        each_layout!(any_vec::mem::Heap, 2);
    }
    each_layout!(GuardMem, 2);
    // inline backends: every admissible placement of the vector inside a 128-aligned arena
    each_layout!(Stack<2048>, 64);
    each_layout!(StackN<8, 2048>, 64);
    c12_one::<W8d, Stack<70>, dyn TNone>(ctx, l, 64);
    c12_one::<Q16, Stack<70>, dyn TNone>(ctx, l, 64);
    c12_one::<A32d, StackN<2, 64>, dyn TNone>(ctx, l, 64);
}

// ---------------------------------------------------------------------------------------------
// C11: SIZE / N grid

fn c11_stack<T: Elem, const SIZE: usize>(sp: &mut Sp) {
    if !sp.take() {
        return;
    }
    reg::reset();
    let desc = format!("Stack<{SIZE}> of {} (size {})", T::NAME, size_of::<T>());
    let r = guarded(|| {
        let mut v: AnyVec<dyn TNone, Stack<SIZE>> = AnyVec::new::<T>();
        let want = if size_of::<T>() == 0 { usize::MAX } else { SIZE / size_of::<T>() };
        let mut notes = Vec::new();
        if v.capacity() != want {
            notes.push(format!("capacity()={} expected {}", v.capacity(), want));
        }
        // fill to capacity, then one more must panic and change nothing
        let n = want.min(40);
        for i in 0..n {
            v.push(AnyValueWrapper::new(T::make(if T::ID_BITS == 0 { 0 } else { (i + 1) as Id })));
        }
        if want <= 40 {
            let over = guarded(|| v.push(AnyValueWrapper::new(T::make(if T::ID_BITS == 0 { 0 } else { 99 }))));
            if over.is_ok() {
                notes.push(format!("push beyond capacity {} did not panic", want));
            }
            let over2 = guarded(|| v.insert(0, AnyValueWrapper::new(T::make(if T::ID_BITS == 0 { 0 } else { 98 }))));
            if over2.is_ok() {
                notes.push(format!("insert beyond capacity {} did not panic", want));
            }
        }
        match snap_ids::<T, _, _>(&v) {
            Ok(ids) => {
                let wantv: Vec<Id> = (0..n).map(|i| if T::ID_BITS == 0 { 0 } else { (i + 1) as Id }).collect();
                if ids != wantv {
                    notes.push(format!("contents {:?} expected {:?}", ids, wantv));
                }
            }
            Err(e) => notes.push(e),
        }
        if v.capacity() != want {
            notes.push(format!("capacity() changed to {}", v.capacity()));
        }
        notes
    });
    match r {
        Ok(notes) => {
            for n in notes {
                sp.viol("capacity", "Stack-grid", n, &desc);
            }
        }
        Err(m) => sp.viol("capacity", "Stack-grid", format!("panicked: {m}"), &desc),
    }
    if T::TRACKED && reg::live_total(T::TAG) != 0 {
        sp.viol("capacity", "Stack-grid", "elements alive after drop".into(), &desc);
    }
    sp.drain_reg("Stack-grid", &desc);
    sp.done(&desc, true, "Stack-grid");
}

fn c11_stackn<T: Elem, const N: usize, const SIZE: usize>(sp: &mut Sp) {
    if !sp.take() {
        return;
    }
    reg::reset();
    let desc = format!("StackN<{N},{SIZE}> of {} (size {})", T::NAME, size_of::<T>());
    let fits = N * size_of::<T>() <= SIZE;
    let r = guarded(|| {
        let mut v: AnyVec<dyn TNone, StackN<N, SIZE>> = AnyVec::new::<T>();
        let mut notes = Vec::new();
        if v.capacity() != N {
            notes.push(format!("capacity()={} expected {}", v.capacity(), N));
        }
        for i in 0..N {
            v.push(AnyValueWrapper::new(T::make(if T::ID_BITS == 0 { 0 } else { (i + 1) as Id })));
        }
        let over = guarded(|| v.push(AnyValueWrapper::new(T::make(if T::ID_BITS == 0 { 0 } else { 99 }))));
        if over.is_ok() {
            notes.push(format!("push beyond capacity {} did not panic", N));
        }
        match snap_ids::<T, _, _>(&v) {
            Ok(ids) => {
                if ids.len() != N {
                    notes.push(format!("contents {:?} after filling to {}", ids, N));
                }
            }
            Err(e) => notes.push(e),
        }
        notes
    });
    sp.ctx.stats.bump(if fits { "accepted_controls" } else { "rejections" }, 1);
    match (r, fits) {
        (Ok(notes), true) => {
            for n in notes {
                sp.viol("capacity", "StackN-grid", n, &desc);
            }
        }
        (Ok(_), false) => sp.viol("capacity", "StackN-grid", format!("construction did not panic although {N} x {} bytes do not fit in {SIZE}", size_of::<T>()), &desc),
        (Err(m), true) => sp.viol("capacity", "StackN-grid", format!("panicked although the elements fit: {m}"), &desc),
        (Err(_), false) => {}
    }
    let _ = reg::take_violations();
    sp.done(&desc, true, "StackN-grid");
}

pub fn c11_grid(ctx: &mut Ctx) {
    monalloc::set_mode(monalloc::MODE_OFF);
    let mut sp = Sp::new(ctx, "grid", "stack-grid".into());
    sp.ctx.ordinal = 0;
    macro_rules! stacks {
        ($t:ty; $($s:expr),*) => { $( c11_stack::<$t, $s>(&mut sp); )* };
    }
    macro_rules! stackns {
        ($t:ty; $(($n:expr, $s:expr)),*) => { $( c11_stackn::<$t, $n, $s>(&mut sp); )* };
    }
    stacks!(Z0d; 0, 1, 7);
    stacks!(U1d; 0, 1, 2, 5);
    stacks!(P3d; 0, 2, 3, 4, 5, 6, 13);
    stacks!(W8d; 0, 7, 8, 9, 15, 16, 33);
    stacks!(W8; 0, 7, 8, 9, 15, 16, 33, 64);
    stacks!(T12d; 0, 11, 12, 13, 23, 24, 49);
    // size a power of two and larger than the alignment
    stacks!(S16d; 0, 15, 16, 17, 31, 32, 47, 48, 64, 100);
    stacks!(S24d; 0, 23, 24, 25, 47, 48, 97);
    stacks!(L160d; 0, 159, 160, 161, 319, 320, 641);
    stackns!(Z0d; (0, 0), (5, 0), (5, 3));
    stackns!(U1d; (0, 0), (1, 0), (1, 1), (4, 3), (4, 4), (4, 5));
    stackns!(P3d; (1, 2), (1, 3), (2, 5), (2, 6), (4, 11), (4, 12), (4, 13));
    stackns!(W8d; (0, 0), (1, 7), (1, 8), (2, 15), (2, 16), (4, 31), (4, 32), (4, 33), (3, 64));
    stackns!(T12d; (1, 11), (1, 12), (3, 35), (3, 36), (3, 37));
    stackns!(S16d; (1, 15), (1, 16), (2, 31), (2, 32), (3, 48), (3, 64));
    stackns!(S24d; (1, 23), (1, 24), (2, 47), (2, 48), (4, 95), (4, 96), (4, 97));
    stackns!(L160d; (1, 159), (1, 160), (2, 319), (2, 320), (2, 321));
}

// ---------------------------------------------------------------------------------------------
// C17: the zero-capacity Empty backend

fn c17_empty_one<T: Elem + SatisfyTraits<Tr>, Tr: ?Sized + TrCaps>(sp: &mut Sp) {
    for times in 1..=3u8 {
        if !sp.take() {
            continue;
        }
        reg::reset();
        let desc = format!("{}:Empty:{} round trip x{times}", T::NAME, Tr::NAME);
        let r = guarded(|| {
            let mut notes = Vec::new();
            let mut v: AnyVec<Tr, Empty> = AnyVec::new_in::<T>(Empty);
            for _ in 0..times {
                let (len, cap, layout, tid) = (v.len(), v.capacity(), v.element_layout(), v.element_typeid());
                let dropf = v.element_drop().map(|f| f as usize);
                let clonef = Tr::clone_fn_addr(&v);
                let parts = v.into_raw_parts();
                if parts.len != len || parts.capacity != cap || parts.element_layout != layout || parts.element_typeid != tid {
                    notes.push(format!("RawParts {{len {}, capacity {}, ..}} differs from the vector {{len {len}, capacity {cap}}}", parts.len, parts.capacity));
                }
                if parts.element_drop.map(|f| f as usize) != dropf {
                    notes.push("RawParts.element_drop differs".into());
                }
                if let Some(c) = clonef {
                    if parts.element_clone as usize != c {
                        notes.push("RawParts.element_clone differs".into());
                    }
                }
                let c2 = parts.clone();
                if c2.len != parts.len || c2.capacity != parts.capacity || c2.element_layout != parts.element_layout || c2.element_typeid != parts.element_typeid {
                    notes.push(format!("RawParts::clone() {{len {}, capacity {}}} differs from the original {{len {}, capacity {}}}", c2.len, c2.capacity, parts.len, parts.capacity));
                }
                v = unsafe { AnyVec::from_raw_parts(parts) };
            }
            if v.len() != 0 || v.capacity() != 0 || v.element_typeid() != TypeId::of::<T>() || v.element_layout() != Layout::new::<T>() {
                notes.push("rebuilt Empty-backed vector differs from the original".into());
            }
            if (v.as_bytes().as_ptr() as usize) % align_of::<T>() != 0 {
                notes.push("Empty backend: dangling storage pointer is not aligned".into());
            }
            // it still rejects elements (zero capacity) and can be cloned / cleared
            let over = guarded(|| v.push(AnyValueWrapper::new(T::make(if T::ID_BITS == 0 { 0 } else { 5 }))));
            if over.is_ok() && size_of::<T>() != 0 {
                notes.push("push into the zero-capacity Empty backend did not panic".into());
            }
            if let Some(c) = Tr::clone_vec(&v) {
                if c.len() != v.len() {
                    notes.push("clone of the rebuilt vector differs".into());
                }
            }
            v.clear();
            notes
        });
        match r {
            Ok(notes) => {
                for n in notes {
                    sp.viol("rawparts", "raw_round_trip(Empty)", n, &desc);
                }
            }
            Err(m) => sp.viol("rawparts", "raw_round_trip(Empty)", format!("panicked: {m}"), &desc),
        }
        sp.ctx.stats.bump("raw_round_trips_checked", times as u64);
        sp.drain_reg("raw_round_trip(Empty)", &desc);
        sp.done(&desc, true, "raw_round_trip(Empty)");
    }
}

pub fn c17_empty(ctx: &mut Ctx) {
    let mut sp = Sp::new(ctx, "rawparts-empty", "Empty".into());
    sp.ctx.ordinal = 0;
    c17_empty_one::<W8d, dyn TNone>(&mut sp);
    c17_empty_one::<W8d, dyn Cloneable>(&mut sp);
    c17_empty_one::<W8d, dyn Cloneable + Send + Sync>(&mut sp);
    c17_empty_one::<S24d, dyn Cloneable>(&mut sp);
    c17_empty_one::<Z0d, dyn Cloneable>(&mut sp);
    c17_empty_one::<U1, dyn Send>(&mut sp);
    c17_empty_one::<A64d, dyn Cloneable + Sync>(&mut sp);
    c17_empty_one::<L160d, dyn Sync>(&mut sp);
}

// ---------------------------------------------------------------------------------------------
// C18: capacity requests at the overflow boundaries; C10: amortised growth

#[cfg(feature = "alloc")]
fn c18_probe<T: Elem>(sp: &mut Sp) {
    use any_vec::mem::Heap;
    let s = size_of::<T>().max(1);
    let imax = isize::MAX as usize;
    let ns: Vec<usize> = vec![imax / s + 1, imax / s + 2, usize::MAX / s, (usize::MAX / s).wrapping_add(1), usize::MAX, usize::MAX - 1, imax + 1];
    for n in ns {
        for how in 0..4 {
            if !sp.take() {
                continue;
            }
            if size_of::<T>() == 0 {
                continue;
            }
            // only requests whose byte size is NOT a valid layout are probed: a valid-but-enormous
            // request fails honestly and aborts the process
            let bytes = n.checked_mul(size_of::<T>());
            let invalid = bytes.map_or(true, |b| b > imax - (align_of::<T>() - 1));
            let prelen = if how == 3 { 2usize } else { 0 };
            let total_invalid = match n.checked_add(prelen).and_then(|t| t.checked_mul(size_of::<T>())) {
                None => true,
                Some(b) => b > imax - (align_of::<T>() - 1),
            };
            if !(invalid && total_invalid) {
                continue;
            }
            reg::reset();
            monalloc::set_mode(monalloc::MODE_GUARD);
            let _ = monalloc::drain_events();
            let names = ["with_capacity", "reserve", "reserve_exact", "reserve(nonempty)"];
            let opsig = format!("{}(overflow)", names[how]);
            let desc = format!("{}:Heap|{}({n:#x}) [{} bytes/element]", T::NAME, names[how], size_of::<T>());
            let before = monalloc::stats();
            monalloc::window_open();
            let r = guarded(|| {
                match how {
                    0 => {
                        let v: AnyVec<dyn TNone, Heap> = AnyVec::with_capacity::<T>(n);
                        drop(v)
                    }
                    1 => {
                        let mut v: AnyVec<dyn TNone, Heap> = AnyVec::new::<T>();
                        v.reserve(n);
                    }
                    2 => {
                        let mut v: AnyVec<dyn TNone, Heap> = AnyVec::new::<T>();
                        v.reserve_exact(n);
                    }
                    _ => {
                        let mut v: AnyVec<dyn TNone, Heap> = AnyVec::new::<T>();
                        v.push(AnyValueWrapper::new(T::make(1 % (1u64 << T::ID_BITS.max(1)))));
                        v.push(AnyValueWrapper::new(T::make(2 % (1u64 << T::ID_BITS.max(1)))));
                        v.reserve(n);
                    }
                }
            });
            monalloc::window_reset();
            sp.ctx.stats.bump("overflow_probes", 1);
            let (evs, _) = monalloc::drain_events();
            for e in evs {
                match e.kind {
                    b'I' => sp.viol("alloc-invalid", &opsig, format!("invalid layout reached the allocator: size={:#x} align={}", e.size, e.align), &desc),
                    b'M' => sp.viol("alloc-layout", &opsig, format!("layout mismatch on release: presented ({}, {}), allocated ({}, {})", e.size, e.align, e.aux, e.aux2), &desc),
                    _ => {}
                }
            }
            if r.is_ok() {
                sp.viol("alloc-invalid", &opsig, "an unrepresentable capacity request returned normally instead of panicking".into(), &desc);
            } else {
                sp.ctx.stats.bump("rejections", 1);
            }
            let after = monalloc::stats();
            if after.live != before.live {
                sp.viol("alloc-leak", &opsig, format!("{} heap block(s) left allocated", after.live - before.live), &desc);
            }
            sp.drain_reg(&opsig, &desc);
            sp.done(&desc, true, &opsig);
        }
    }
}

#[cfg(feature = "alloc")]
pub fn c18_overflow(ctx: &mut Ctx) {
    let mut sp = Sp::new(ctx, "overflow", "Heap-overflow".into());
    sp.ctx.ordinal = 0;
    c18_probe::<U1>(&mut sp);
    c18_probe::<U2>(&mut sp);
    c18_probe::<P3>(&mut sp);
    c18_probe::<W8>(&mut sp);
    c18_probe::<W8d>(&mut sp);
    c18_probe::<T12>(&mut sp);
    c18_probe::<Q16>(&mut sp);
    c18_probe::<S16d>(&mut sp);
    c18_probe::<A32d>(&mut sp);
    c18_probe::<A64d>(&mut sp);
    c18_probe::<L160d>(&mut sp);
}
#[cfg(not(feature = "alloc"))]
pub fn c18_overflow(_ctx: &mut Ctx) {}

#[cfg(feature = "alloc")]
pub fn c10_amortised(ctx: &mut Ctx) {
    use any_vec::mem::Heap;
    // long enough that a growth step capped at any fixed byte size turns visibly linear
    let n: usize = if ctx.thorough() { 1 << 22 } else { 1 << 20 };
    let mut sp = Sp::new(ctx, "amortised", "Heap-growth".into());
    sp.ctx.ordinal = 0;
    fn run<T: Elem>(sp: &mut Sp, n: usize, how: u8) {
        if !sp.take() {
            return;
        }
        reg::reset();
        monalloc::set_mode(monalloc::MODE_LOG);
        let _ = monalloc::drain_events();
        let desc = format!("{}:Heap|{n} x {}", T::NAME, ["push(Wrapper)", "push(Raw)", "typed.push", "insert(len)"][how as usize]);
        let before = monalloc::stats();
        monalloc::window_open();
        let r = guarded(|| {
            let mut v: AnyVec<dyn TNone, Heap> = AnyVec::new::<T>();
            let mask = (1u64 << T::ID_BITS.clamp(1, 32)) - 1;
            let mut bad = 0usize;
            for i in 0..n {
                let id = if T::ID_BITS == 0 { 0 } else { (i as u64 & mask).min(150) };
                match how {
                    0 => v.push(AnyValueWrapper::new(T::make(id))),
                    1 => {
                        let mut slot = RawSlot::<T>::new(id);
                        let raw = unsafe { AnyValueRaw::new(slot.ptr(), size_of::<T>(), TypeId::of::<T>()) };
                        v.push(raw);
                        slot.consumed();
                    }
                    2 => v.downcast_mut::<T>().unwrap().push(T::make(id)),
                    _ => {
                        let l = v.len();
                        v.insert(l, AnyValueWrapper::new(T::make(id)))
                    }
                }
                if v.len() > v.capacity() {
                    bad += 1;
                }
            }
            (v.len(), bad)
        });
        monalloc::window_reset();
        let after = monalloc::stats();
        let _ = monalloc::drain_events();
        let reallocs = (after.allocs - before.allocs) + (after.reallocs - before.reallocs);
        let bound = 2 * (usize::BITS - n.leading_zeros()) as u64 + 8;
        sp.ctx.stats.bump("amortisation_runs", 1);
        sp.ctx.stats.bump("amortisation_pushes", n as u64);
        match r {
            Ok((len, bad)) => {
                if len != n || bad != 0 {
                    sp.viol("capacity", "amortised-growth", format!("after {n} pushes len={len}, len>capacity observed {bad}x"), &desc);
                }
                if size_of::<T>() != 0 && reallocs > bound {
                    sp.viol("capacity", "amortised-growth", format!("{reallocs} (re)allocations for {n} pushes; amortised growth allows at most {bound}"), &desc);
                }
                if size_of::<T>() == 0 && reallocs != 0 {
                    sp.viol("capacity", "amortised-growth", format!("{reallocs} allocations for a zero-sized element type"), &desc);
                }
            }
            Err(m) => sp.viol("capacity", "amortised-growth", format!("panicked: {m}"), &desc),
        }
        if after.live != before.live {
            sp.viol("capacity", "amortised-growth", "storage not released".into(), &desc);
        }
        let _ = reg::take_violations();
        sp.done(&format!("{desc} -> {reallocs} (re)allocations (bound {bound})"), true, "amortised-growth");
    }
    for how in 0..4u8 {
        run::<W8>(&mut sp, n, how);
        run::<U1>(&mut sp, n, how);
        run::<S24d>(&mut sp, n / 8, how);
        run::<L160d>(&mut sp, n / 8, how);
        run::<Z0d>(&mut sp, n / 16, how);
        run::<A32d>(&mut sp, n / 4, how);
    }
}
#[cfg(not(feature = "alloc"))]
pub fn c10_amortised(_ctx: &mut Ctx) {}

// ---------------------------------------------------------------------------------------------
// C10: capacity promises at sizes the small-scope families do not reach (page multiples, powers of two, +-1)

#[cfg(feature = "alloc")]
pub fn c10_large(ctx: &mut Ctx) {
    use any_vec::mem::Heap;
    if ctx.tool_mode {
        return;
    }
    let mut sp = Sp::new(ctx, "large-capacity", "Heap-large".into());
    sp.ctx.ordinal = 0;
    // layouts, guard zones and released blocks are watched by the allocator monitor (C05 / C18 read those kinds)
    monalloc::set_mode(monalloc::MODE_GUARD);
    let _ = monalloc::drain_events();
    fn sizes<T>() -> Vec<usize> {
        let sz = size_of::<T>().max(1);
        let mut bytes: Vec<usize> = Vec::new();
        for k in 1..=40usize {
            bytes.extend([4096 * k - 1, 4096 * k, 4096 * k + 1]);
        }
        for p in 12..=22u32 {
            bytes.extend([(1usize << p) - 1, 1usize << p, (1usize << p) + 1]);
        }
        bytes.extend([1000, 7777, 65_537, 69_632, 100_000, 1_000_003]);
        let mut ns: Vec<usize> = bytes.iter().flat_map(|b| [b / sz, (b + sz - 1) / sz]).filter(|n| *n > 0).collect();
        ns.sort();
        ns.dedup();
        ns
    }
    fn run<T: Elem>(sp: &mut Sp) {
        for n in sizes::<T>() {
            for scenario in 0..6u8 {
                if !sp.take() {
                    continue;
                }
                reg::reset();
                let opsig = ["with_capacity", "reserve_exact", "reserve", "release-then-reserve", "typed.reserve_exact", "shrink-then-regrow"][scenario as usize];
                let desc = format!("{}:Heap|{opsig}({n})", T::NAME);
                let ids: Vec<Id> = (1..=3).map(|i| if T::ID_BITS == 0 { 0 } else { i }).collect();
                let fill = |v: &mut AnyVec<dyn TNone, Heap>| ids.iter().for_each(|i| v.push(AnyValueWrapper::new(T::make(*i))));
                let live_before = monalloc::stats().live;
                monalloc::window_open();
                let r = guarded(|| -> Result<(), String> {
                    let intact = |v: &AnyVec<dyn TNone, Heap>| -> Result<(), String> {
                        // the storage pointer is aligned for the element type at every size (reported as kind `align` below)
                        let base = v.as_bytes().as_ptr() as usize;
                        if base % align_of::<T>() != 0 {
                            return Err(format!("ALIGN storage pointer {base:#x} of a vector with capacity {} is not aligned to {}", v.capacity(), align_of::<T>()));
                        }
                        match snap_ids::<T, _, _>(v) {
                            Ok(got) if got == ids => Ok(()),
                            other => Err(format!("elements changed: {other:?}, expected {ids:?}")),
                        }
                    };
                    match scenario {
                        0 => {
                            let mut v: AnyVec<dyn TNone, Heap> = AnyVec::with_capacity::<T>(n);
                            if v.capacity() < n {
                                return Err(format!("with_capacity({n}) gives capacity {}", v.capacity()));
                            }
                            let c = v.capacity();
                            fill(&mut v);
                            if n >= 3 && v.capacity() != c {
                                return Err(format!("capacity changed from {c} to {} by three pushes into with_capacity({n})", v.capacity()));
                            }
                            intact(&v)?;
                            // shrink_to(m) ends at exactly max(len, m) on the heap backend
                            let m = n / 2 + 1;
                            v.shrink_to(m);
                            let want = c.min(m.max(3));
                            if v.capacity() != want {
                                return Err(format!("shrink_to({m}) from capacity {c} ends at {} instead of {want}", v.capacity()));
                            }
                            intact(&v)
                        }
                        5 => {
                            // big, shrink to the three elements, grow back to just below the old size, then use all of the
                            // spare capacity (a block size remembered from before the shrink would be written past)
                            let mut v: AnyVec<dyn TNone, Heap> = AnyVec::with_capacity::<T>(n);
                            fill(&mut v);
                            v.shrink_to_fit();
                            if v.capacity() != 3.min(n.max(3)) && n >= 3 {
                                return Err(format!("shrink_to_fit from capacity {n} with len 3 ends at {}", v.capacity()));
                            }
                            let back = n.saturating_sub(4).max(1);
                            v.reserve_exact(back);
                            if v.capacity() < 3 + back {
                                return Err(format!("len 3, reserve_exact({back}) leaves capacity {}", v.capacity()));
                            }
                            let cap = v.capacity();
                            let spare = v.spare_bytes_mut();
                            if spare.len() != (cap - 3) * size_of::<T>() {
                                return Err(format!("spare_bytes_mut() is {} bytes for capacity {cap}, len 3", spare.len()));
                            }
                            for b in spare.iter_mut() {
                                b.write(0xAB);
                            }
                            intact(&v)
                        }
                        1 | 2 | 4 => {
                            let mut v: AnyVec<dyn TNone, Heap> = AnyVec::new::<T>();
                            fill(&mut v);
                            match scenario {
                                1 => v.reserve_exact(n),
                                2 => v.reserve(n),
                                _ => v.downcast_mut::<T>().unwrap().reserve_exact(n),
                            }
                            if v.capacity() < 3 + n {
                                return Err(format!("len 3, {opsig}({n}) leaves capacity {}", v.capacity()));
                            }
                            let c = v.capacity();
                            // already satisfied: no change
                            v.reserve(n);
                            v.reserve_exact(n);
                            if v.capacity() != c {
                                return Err(format!("capacity {c} already held len + {n}, a second reserve changed it to {}", v.capacity()));
                            }
                            intact(&v)?;
                            v.shrink_to_fit();
                            if v.capacity() != 3 {
                                return Err(format!("shrink_to_fit from capacity {c} with len 3 ends at {}", v.capacity()));
                            }
                            intact(&v)
                        }
                        _ => {
                            // grow big, release everything, grow by a different amount, shrink, grow again
                            let mut v: AnyVec<dyn TNone, Heap> = AnyVec::with_capacity::<T>(n);
                            v.shrink_to_fit();
                            if v.capacity() != 0 {
                                return Err(format!("shrink_to_fit of an empty vector of capacity {n} ends at {}", v.capacity()));
                            }
                            v.reserve(n + 1);
                            if v.capacity() < n + 1 {
                                return Err(format!("after releasing a block of {n}, reserve({}) leaves capacity {}", n + 1, v.capacity()));
                            }
                            fill(&mut v);
                            v.shrink_to(0);
                            if v.capacity() != 3 {
                                return Err(format!("shrink_to(0) with len 3 ends at {}", v.capacity()));
                            }
                            v.reserve_exact(2 * n);
                            if v.capacity() < 3 + 2 * n {
                                return Err(format!("len 3, reserve_exact({}) leaves capacity {}", 2 * n, v.capacity()));
                            }
                            intact(&v)
                        }
                    }
                });
                monalloc::window_reset();
                match r {
                    Ok(Ok(())) => {}
                    Ok(Err(m)) if m.starts_with("ALIGN ") => sp.viol("align", opsig, m[6..].to_string(), &desc),
                    Ok(Err(m)) => sp.viol("capacity", opsig, m, &desc),
                    Err(m) => sp.viol("capacity", opsig, format!("panicked: {m}"), &desc),
                }
                sp.drain_alloc(opsig, &desc);
                let live_after = monalloc::stats().live;
                if live_after != live_before {
                    sp.viol("alloc-leak", opsig, format!("{} heap block(s) left allocated", live_after as i64 - live_before as i64), &desc);
                }
                sp.drain_reg(opsig, &desc);
                sp.ctx.stats.bump("large_capacity_requests", 1);
                sp.done(&desc, true, opsig);
            }
        }
    }
    run::<U1>(&mut sp);
    run::<W8d>(&mut sp);
    run::<S24d>(&mut sp);
    run::<A32d>(&mut sp);
    run::<A64d>(&mut sp);
    run::<L160d>(&mut sp);
    // chunks of 32 MiB and more: shrinking by less than a page still ends exactly at the bound
    fn huge<T: Elem>(sp: &mut Sp) {
        for mib in [32usize, 48] {
            if !sp.take() {
                continue;
            }
            reg::reset();
            let opsig = "huge-shrink";
            let n = (mib << 20) / size_of::<T>().max(1) + 100;
            let desc = format!("{}:Heap|with_capacity({n}) [{mib} MiB], shrink_to(n-40), shrink_to(n-100), shrink_to_fit", T::NAME);
            let live_before = monalloc::stats().live;
            monalloc::window_open();
            let r = guarded(|| -> Result<(), String> {
                let mut v: AnyVec<dyn TNone, Heap> = AnyVec::with_capacity::<T>(n);
                let mask = if T::ID_BITS == 0 { 0 } else { (1u64 << T::ID_BITS.min(32)) - 1 };
                for i in 1..=3u64 {
                    v.push(AnyValueWrapper::new(T::make(i & mask)));
                }
                if v.capacity() < n {
                    return Err(format!("with_capacity({n}) gives capacity {}", v.capacity()));
                }
                let c = v.capacity();
                for m in [n - 40, n - 100, n / 2 + 7] {
                    v.shrink_to(m);
                    let want = c.min(m);
                    if v.capacity() != want {
                        return Err(format!("shrink_to({m}) from capacity {c} ends at {} instead of {want}", v.capacity()));
                    }
                }
                v.shrink_to_fit();
                if v.capacity() != 3 {
                    return Err(format!("shrink_to_fit with len 3 ends at {}", v.capacity()));
                }
                match snap_ids::<T, _, _>(&v) {
                    Ok(ids) if ids == vec![1 & mask, 2 & mask, 3 & mask] => Ok(()),
                    other => Err(format!("elements changed: {other:?}")),
                }
            });
            monalloc::window_reset();
            match r {
                Ok(Ok(())) => {}
                Ok(Err(m)) => sp.viol("capacity", opsig, m, &desc),
                Err(m) => sp.viol("capacity", opsig, format!("panicked: {m}"), &desc),
            }
            sp.drain_alloc(opsig, &desc);
            if monalloc::stats().live != live_before {
                sp.viol("alloc-leak", opsig, "heap block(s) left allocated".into(), &desc);
            }
            sp.drain_reg(opsig, &desc);
            sp.ctx.stats.bump("large_capacity_requests", 1);
            sp.done(&desc, true, opsig);
        }
    }
    huge::<W8d>(&mut sp);
    huge::<U1d>(&mut sp);
    huge::<S24d>(&mut sp);
    monalloc::set_mode(monalloc::MODE_OFF);
}
#[cfg(not(feature = "alloc"))]
pub fn c10_large(_ctx: &mut Ctx) {}

// ---------------------------------------------------------------------------------------------
// C14 / C02: iterators and range operations at lengths where a narrowed cursor or counter would wrap
// (2^8, 2^16 with real elements; 2^32 with zero-sized ones, whose length can simply be set)

#[cfg(feature = "alloc")]
pub fn c14_large(ctx: &mut Ctx) {
    use any_vec::mem::Heap;
    if ctx.tool_mode {
        return;
    }
    let mut sp = Sp::new(ctx, "large-iter", "W8:Heap-large".into());
    sp.ctx.ordinal = 0;
    monalloc::set_mode(monalloc::MODE_OFF);
    type V = AnyVec<dyn TNone, Heap>;
    let idv = |e: &W8| e.probe().unwrap_or(u64::MAX);
    let lens: &[usize] = &[255, 256, 257, 65_535, 65_536, 65_537, 70_001];
    for &len in lens {
        for what in 0..6u8 {
            if !sp.take() {
                continue;
            }
            reg::reset();
            let opsig = ["iter", "iter_mut", "typed.iter", "drain", "typed.drain", "splice"][what as usize];
            let desc = format!("W8:Heap|len={len}|{opsig}");
            let r = guarded(|| -> Result<(), String> {
                let mut v: V = AnyVec::new::<W8>();
                {
                    let mut tv = v.downcast_mut::<W8>().unwrap();
                    for i in 0..len {
                        tv.push(W8::make(i as u64));
                    }
                }
                macro_rules! walk {
                    ($it:expr, $id:expr) => {{
                        let mut it = $it;
                        if it.len() != len || it.size_hint() != (len, Some(len)) {
                            return Err(format!("fresh iterator over {len} elements: len()={} size_hint()={:?}", it.len(), it.size_hint()));
                        }
                        let a = it.next().map($id);
                        let b = it.next_back().map($id);
                        if a != Some(0) || b != Some(len as u64 - 1) {
                            return Err(format!("next()/next_back() gave {a:?}/{b:?}, expected 0/{}", len - 1));
                        }
                        let k = len - 12;
                        let c = it.nth(k).map($id);
                        if c != Some(1 + k as u64) || it.len() != 9 {
                            return Err(format!("nth({k}) gave {c:?} (expected {}), then len()={} (expected 9)", 1 + k, it.len()));
                        }
                        let d = it.nth_back(3).map($id);
                        if d != Some(len as u64 - 5) || it.len() != 5 {
                            return Err(format!("nth_back(3) gave {d:?} (expected {}), then len()={} (expected 5)", len - 5, it.len()));
                        }
                        let rest = it.count();
                        if rest != 5 {
                            return Err(format!("count() of the remaining items gave {rest}, expected 5"));
                        }
                    }};
                }
                match what {
                    0 => {
                        walk!(v.iter(), |e: any_vec::element::ElementRef<dyn TNone, Heap>| e.downcast_ref::<W8>().map(idv).unwrap_or(u64::MAX));
                        let n = v.iter().count();
                        let l = v.iter().last().map(|e| e.downcast_ref::<W8>().map(idv).unwrap_or(u64::MAX));
                        let p = v.iter().rposition(|e| e.downcast_ref::<W8>().map(idv) == Some(len as u64 - 2));
                        if n != len || l != Some(len as u64 - 1) || p != Some(len - 2) {
                            return Err(format!("count()={n} last()={l:?} rposition(len-2)={p:?} over {len} elements"));
                        }
                    }
                    1 => walk!(v.iter_mut(), |mut e: any_vec::element::ElementMut<dyn TNone, Heap>| e.downcast_mut::<W8>().map(|x| idv(&*x)).unwrap_or(u64::MAX)),
                    2 => {
                        let tv = v.downcast_ref::<W8>().unwrap();
                        walk!(tv.iter(), |e: &W8| idv(e));
                    }
                    3 | 4 => {
                        // a short range at the far end, partially consumed from both ends
                        let (a, b) = (len - 7, len - 2);
                        let got: Vec<u64> = if what == 3 {
                            let mut d = v.drain(a..b);
                            if d.len() != 5 {
                                return Err(format!("drain({a}..{b}).len()={}", d.len()));
                            }
                            let x = d.next().map(|e| e.downcast_ref::<W8>().map(idv).unwrap_or(u64::MAX));
                            let y = d.next_back().map(|e| e.downcast_ref::<W8>().map(idv).unwrap_or(u64::MAX));
                            vec![x.unwrap_or(u64::MAX), y.unwrap_or(u64::MAX), d.len() as u64]
                        } else {
                            let mut tv = v.downcast_mut::<W8>().unwrap();
                            let mut d = tv.drain(a..b);
                            let x = d.next().map(|e| idv(&e));
                            let y = d.next_back().map(|e| idv(&e));
                            vec![x.unwrap_or(u64::MAX), y.unwrap_or(u64::MAX), d.len() as u64]
                        };
                        if got != vec![a as u64, b as u64 - 1, 3] {
                            return Err(format!("drain({a}..{b}): next/next_back/len gave {got:?}, expected [{a}, {}, 3]", b - 1));
                        }
                        let tv = v.downcast_ref::<W8>().unwrap();
                        let s = tv.as_slice();
                        if s.len() != len - 5 || idv(&s[a - 1]) != a as u64 - 1 || idv(&s[a]) != b as u64 || idv(&s[len - 6]) != len as u64 - 1 {
                            return Err(format!("after drain({a}..{b}) of {len}: len {} and neighbours {:?}", s.len(), [idv(&s[a - 1]), idv(&s[a]), idv(&s[s.len() - 1])]));
                        }
                        // a long range from the front, consumed through nth
                        let mut v2 = v;
                        let l2 = len - 5;
                        let mut d = v2.drain(1..l2 - 1);
                        let z = d.nth(l2 - 4).map(|e| e.downcast_ref::<W8>().map(idv).unwrap_or(u64::MAX));
                        let left = d.len();
                        drop(d);
                        let tv = v2.downcast_ref::<W8>().unwrap();
                        let ids: Vec<u64> = tv.as_slice().iter().map(idv).collect();
                        if left != 1 || ids != vec![0, len as u64 - 1] || z.is_none() {
                            return Err(format!("drain(1..{}) then nth({}): item {z:?}, {left} left, vector afterwards {:?}", l2 - 1, l2 - 4, &ids[..ids.len().min(6)]));
                        }
                    }
                    _ => {
                        // replace a long middle range by three elements
                        let (a, b) = (2usize, len - 2);
                        let repl = [900_001u64, 900_002, 900_003].map(|i| AnyValueWrapper::new(W8::make(i)));
                        let mut sp_it = v.splice(a..b, repl);
                        let n0 = sp_it.len();
                        let first = sp_it.next().map(|e| e.downcast_ref::<W8>().map(idv).unwrap_or(u64::MAX));
                        let last = sp_it.next_back().map(|e| e.downcast_ref::<W8>().map(idv).unwrap_or(u64::MAX));
                        drop(sp_it);
                        let tv = v.downcast_ref::<W8>().unwrap();
                        let ids: Vec<u64> = tv.as_slice().iter().map(idv).collect();
                        if n0 != b - a || first != Some(2) || last != Some(b as u64 - 1) || ids != vec![0, 1, 900_001, 900_002, 900_003, len as u64 - 2, len as u64 - 1] {
                            return Err(format!("splice({a}..{b}, 3 items) of {len}: len()={n0}, ends {first:?}/{last:?}, vector afterwards {:?}", &ids[..ids.len().min(9)]));
                        }
                    }
                }
                Ok(())
            });
            match r {
                Ok(Ok(())) => {}
                Ok(Err(m)) => sp.viol(if what >= 3 { "model" } else { "iter" }, opsig, m, &desc),
                Err(m) => sp.viol("model", opsig, format!("panicked: {m}"), &desc),
            }
            let _ = reg::take_violations();
            sp.ctx.stats.bump("large_iter_elements", len as u64);
            sp.done(&desc, true, opsig);
        }
    }
    // zero-sized elements: a length beyond 2^32 costs nothing
    sp.cfg = "Z0:Heap-large".into();
    for &len in &[(1usize << 16) + 3, (1usize << 32) + 5] {
        if !sp.take() {
            continue;
        }
        let opsig = "zst-iter+drain";
        let desc = format!("Z0:Heap|len={len}|{opsig}");
        let r = guarded(|| -> Result<(), String> {
            let mut v: V = AnyVec::new::<Z0>();
            v.reserve(len);
            if v.capacity() < len {
                return Err(format!("reserve({len}) for a zero-sized type leaves capacity {}", v.capacity()));
            }
            unsafe { v.set_len(len) };
            let mut it = v.iter();
            if it.len() != len || it.size_hint() != (len, Some(len)) {
                return Err(format!("iter().len()={} size_hint()={:?} over {len} zero-sized elements", it.len(), it.size_hint()));
            }
            // walking 2^32 items one by one is left out: nth only at the smaller length
            let huge = len > (1 << 20);
            if huge {
                if it.next().is_none() || it.next_back().is_none() || it.len() != len - 2 {
                    return Err(format!("next() / next_back() over {len} zero-sized elements leave len()={}", it.len()));
                }
            } else if it.nth(len - 4).is_none() || it.len() != 3 || it.next_back().is_none() || it.len() != 2 {
                return Err(format!("nth({}) / next_back() over {len} zero-sized elements leave len()={}", len - 4, it.len()));
            }
            drop(it);
            let tl = v.downcast_ref::<Z0>().unwrap().iter().len();
            if tl != len {
                return Err(format!("typed iter().len()={tl} over {len} zero-sized elements"));
            }
            let mut d = v.drain(len - 5..);
            let n = d.len();
            let got = d.by_ref().count();
            drop(d);
            if n != 5 || got != 5 || v.len() != len - 5 {
                return Err(format!("drain({}..) of {len}: len()={n}, yielded {got}, vector length afterwards {}", len - 5, v.len()));
            }
            let mut d = v.drain(..len - 7);
            let n = d.len();
            let (x, left) = if huge {
                (d.next().is_some() && d.next_back().is_some() && d.len() == n - 2, 1)
            } else {
                (d.nth(len - 9).is_some(), d.len())
            };
            drop(d);
            if n != len - 7 || !x || left != 1 || v.len() != 2 {
                return Err(format!("drain(..{}) of {}: len()={n}, nth hit {x}, {left} left, vector length afterwards {}", len - 7, len - 5, v.len()));
            }
            // splices whose removed range / replacement count do not fit 31 bits
            unsafe { v.set_len(len) };
            let sp_it = v.splice(3..len - 5, [AnyValueWrapper::new(Z0), AnyValueWrapper::new(Z0)]);
            let n = sp_it.len();
            drop(sp_it);
            if n != len - 8 || v.len() != 10 {
                return Err(format!("splice(3..{}, 2 items) of {len}: len()={n} (expected {}), vector length afterwards {} (expected 10)", len - 5, len - 8, v.len()));
            }
            unsafe { v.set_len(len) };
            {
                let mut tv = v.downcast_mut::<Z0>().unwrap();
                let d = tv.splice(2..len - 2, std::iter::repeat(Z0).take(7));
                drop(d);
            }
            if v.len() != 11 {
                return Err(format!("typed splice(2..{}, 7 items) of {len}: vector length afterwards {} (expected 11)", len - 2, v.len()));
            }
            Ok(())
        });
        match r {
            Ok(Ok(())) => {}
            Ok(Err(m)) => sp.viol("iter", opsig, m, &desc),
            Err(m) => sp.viol("iter", opsig, format!("panicked: {m}"), &desc),
        }
        let _ = reg::take_violations();
        sp.done(&desc, true, opsig);
    }
}
#[cfg(not(feature = "alloc"))]
pub fn c14_large(_ctx: &mut Ctx) {}

// ---------------------------------------------------------------------------------------------
// C05: a typed drain / splice handle does not keep its typed view borrowed (the C16 finding D12), so safe code can grow the
// vector while the handle is alive. On the pinned tree that is harmless (the handle re-reads the storage pointer at every
// step); an implementation that caches the pointer would read the released block.

pub fn c05_live_growth(ctx: &mut Ctx) {
    if cfg!(miri) {
        // the interleaving itself trips the borrow models (an exclusive reborrow of the view between two uses of the handle)
        return;
    }
    let mut sp = Sp::new(ctx, "live-handle-growth", "growth-under-live-typed-handle".into());
    sp.ctx.ordinal = 0;
    fn run<T: Elem, M: MemCaps>(sp: &mut Sp)
    where
        M::Mem: any_vec::mem::MemResizable,
    {
        if pointer_free_only() && T::HEAP {
            return;
        }
        for what in 0..4u8 {
            if !sp.take() {
                continue;
            }
            reg::reset();
            let opsig = ["typed.drain+reserve", "typed.drain+reserve_exact", "typed.splice+reserve", "typed.splice+push-growth"][what as usize];
            let desc = format!("{}:{}|{opsig}", T::NAME, M::NAME);
            let mask = if T::ID_BITS == 0 { 0 } else { (1u64 << T::ID_BITS.min(32)) - 1 };
            let id = |i: u64| i & mask;
            monalloc::window_open();
            let r = guarded(|| -> Result<(), String> {
                let mut v: AnyVec<dyn TNone, M> = M::new_vec::<dyn TNone, T>(0);
                for i in 0..6 {
                    v.push(AnyValueWrapper::new(T::make(id(i))));
                }
                let mut want: Vec<Id> = (0..6).map(id).collect();
                let mut got: Vec<Result<Id, u64>> = Vec::new();
                {
                    let mut t = v.downcast_mut::<T>().unwrap();
                    if what < 2 {
                        let mut d = t.drain(1..4);
                        got.extend(d.next().map(|x| x.probe()));
                        if what == 0 { t.reserve(40) } else { t.reserve_exact(33) }
                        got.extend(d.next().map(|x| x.probe()));
                        got.extend(d.next_back().map(|x| x.probe()));
                        drop(d);
                        want.drain(1..4);
                    } else {
                        let repl: Vec<T> = (10..13).map(|i| T::make(id(i))).collect();
                        let mut d = t.splice(1..3, repl);
                        got.extend(d.next().map(|x| x.probe()));
                        if what == 2 {
                            t.reserve(40);
                        } else {
                            // growth through the spare capacity API only: nothing is written, only the block moves
                            let c = t.capacity();
                            t.reserve_exact(c + 9);
                        }
                        got.extend(d.next_back().map(|x| x.probe()));
                        drop(d);
                        want.splice(1..3, (10..13).map(id));
                    }
                }
                let yielded: Vec<Result<Id, u64>> = if what < 2 { vec![Ok(id(1)), Ok(id(2)), Ok(id(3))] } else { vec![Ok(id(1)), Ok(id(2))] };
                if got != yielded {
                    return Err(format!("items taken around the growth are {got:?}, expected {yielded:?}"));
                }
                match snap_ids::<T, _, _>(&v) {
                    Ok(ids) if ids == want => Ok(()),
                    other => Err(format!("vector afterwards {other:?}, expected {want:?}")),
                }
            });
            monalloc::window_reset();
            match r {
                Ok(Ok(())) => {}
                Ok(Err(m)) => sp.viol("garbage", opsig, m, &desc),
                Err(m) => sp.viol("garbage", opsig, format!("panicked: {m}"), &desc),
            }
            sp.drain_alloc(opsig, &desc);
            guardmem_scan(sp, opsig, &desc);
            sp.drain_reg(opsig, &desc);
            sp.ctx.stats.bump("live_handle_growths", 1);
            sp.done(&desc, true, opsig);
        }
    }
    fn guardmem_scan(sp: &mut Sp, opsig: &str, desc: &str) {
        hvcore::guard::scan();
        for v in reg::take_violations() {
            sp.viol(v.kind, opsig, v.detail, desc);
        }
    }
    #[cfg(feature = "alloc")]
    {
        use any_vec::mem::Heap;
        if !sp.ctx.tool_mode {
            monalloc::set_mode(monalloc::MODE_GUARD);
        }
        run::<W8d, Heap>(&mut sp);
        run::<U1d, Heap>(&mut sp);
        run::<S24d, Heap>(&mut sp);
        run::<L160d, Heap>(&mut sp);
        run::<B8, Heap>(&mut sp);
        if !sp.ctx.tool_mode {
            monalloc::set_mode(monalloc::MODE_OFF);
        }
    }
    run::<W8d, GuardMem>(&mut sp);
    run::<P3d, GuardMem>(&mut sp);
    run::<S24d, GuardMem>(&mut sp);
    run::<L160d, GuardMem>(&mut sp);
}

// ---------------------------------------------------------------------------------------------
// Getters across backends, including element layouts the stack backends cannot hold aligned (no element is ever stored in
// those): element_layout / element_typeid / element_drop / element_clone survive every clone_empty / clone_empty_in hop, and a
// heap vector at the end of such a chain allocates with the element's alignment.

#[cfg(feature = "alloc")]
pub fn meta_grid(ctx: &mut Ctx) {
    use any_vec::mem::Heap;
    if cfg!(miri) {
        return;
    }
    let mut sp = Sp::new(ctx, "meta-grid", "getters-across-backends".into());
    sp.ctx.ordinal = 0;
    monalloc::set_mode(monalloc::MODE_GUARD);
    let _ = monalloc::drain_events();
    type Tr = dyn Cloneable;
    fn meta<T: Elem, M: MemBuilder>(v: &AnyVec<Tr, M>, what: &str) -> Result<(usize, usize), (&'static str, String)> {
        if v.element_layout() != Layout::new::<T>() {
            return Err(("meta", format!("{what}: element_layout() is {:?}, the element type has {:?}", v.element_layout(), Layout::new::<T>())));
        }
        if v.element_typeid() != TypeId::of::<T>() {
            return Err(("meta", format!("{what}: element_typeid() is not the element type")));
        }
        if v.len() != 0 || !v.is_empty() {
            return Err(("meta", format!("{what}: an empty clone reports len {} is_empty {}", v.len(), v.is_empty())));
        }
        let tv = v.downcast_ref::<T>().ok_or(("meta", format!("{what}: downcast_ref::<T>() is None")))?;
        if tv.len() != 0 || !tv.is_empty() || tv.capacity() != v.capacity() {
            return Err(("meta", format!("{what}: typed view reports len {} capacity {} (vector: 0 / {})", tv.len(), tv.capacity(), v.capacity())));
        }
        Ok((v.element_drop().map_or(0, |f| f as usize), v.element_clone() as usize))
    }
    fn hops<T: Elem, M: MemBuilder + Default>(sp: &mut Sp, mname: &str, fixed: Option<usize>) {
        if !sp.take() {
            return;
        }
        reg::reset();
        let opsig = "clone_empty_in-chain";
        let desc = format!("{}:{mname}|new_in -> clone_empty -> clone_empty_in(Stack/StackN/Empty/Guard/Heap) -> Heap", T::NAME);
        monalloc::window_open();
        let r = guarded(|| -> Result<(), (&'static str, String)> {
            let v: AnyVec<Tr, M> = AnyVec::new_in::<T>(M::default());
            let fns = meta::<T, M>(&v, "a fresh vector")?;
            if let Some(c) = fixed {
                if v.capacity() != c {
                    return Err(("capacity", format!("a fresh {mname} vector of {} reports capacity {} (expected {c})", T::NAME, v.capacity())));
                }
            }
            let same = |got: (usize, usize), what: &str| if got == fns { Ok(()) } else { Err(("meta", format!("{what}: element_drop / element_clone differ from the source's"))) };
            same(meta::<T, M>(&v.clone_empty(), "clone_empty()")?, "clone_empty()")?;
            let a = v.clone_empty_in(Stack::<4096>);
            same(meta::<T, _>(&a, "clone_empty_in(Stack)")?, "clone_empty_in(Stack)")?;
            let b = a.clone_empty_in(StackN::<16, 4096>);
            same(meta::<T, _>(&b, "clone_empty_in(Stack).clone_empty_in(StackN)")?, "clone_empty_in(StackN)")?;
            let c = b.clone_empty_in(Empty);
            same(meta::<T, _>(&c, "... .clone_empty_in(Empty)")?, "clone_empty_in(Empty)")?;
            let d = c.clone_empty_in(GuardMem::default());
            same(meta::<T, _>(&d, "... .clone_empty_in(Guard)")?, "clone_empty_in(Guard)")?;
            let mut h = d.clone_empty_in(Heap);
            same(meta::<T, _>(&h, "... .clone_empty_in(Heap)")?, "clone_empty_in(Heap)")?;
            // the heap vector at the end of the chain is a working vector of T (heap storage is aligned for any T)
            let base0 = h.as_bytes().as_ptr() as usize;
            if base0 % align_of::<T>() != 0 {
                return Err(("align", format!("the empty heap vector's storage pointer {base0:#x} is not aligned to {}", align_of::<T>())));
            }
            let mask = if T::ID_BITS == 0 { 0 } else { (1u64 << T::ID_BITS.min(32)) - 1 };
            for i in 1..=3u64 {
                h.push(AnyValueWrapper::new(T::make(i & mask)));
            }
            let base = h.as_bytes().as_ptr() as usize;
            if base % align_of::<T>() != 0 {
                return Err(("align", format!("heap storage {base:#x} of a vector cloned through the stack backends is not aligned to {}", align_of::<T>())));
            }
            let h2 = h.clone();
            match (snap_ids::<T, _, _>(&h), snap_ids::<T, _, _>(&h2)) {
                (Ok(x), Ok(y)) if x == vec![1 & mask, 2 & mask, 3 & mask] && x == y => {}
                other => return Err(("model", format!("the heap vector at the end of the chain and its clone hold {other:?}"))),
            }
            Ok(())
        });
        monalloc::window_reset();
        match r {
            Ok(Ok(())) => {}
            Ok(Err((kind, m))) => sp.viol(kind, opsig, m, &desc),
            Err(m) => sp.viol("meta", opsig, format!("panicked: {m}"), &desc),
        }
        sp.drain_alloc(opsig, &desc);
        sp.drain_reg(opsig, &desc);
        sp.ctx.stats.bump("meta_chains", 1);
        sp.done(&desc, true, opsig);
    }
    macro_rules! all_backends {
        ($($t:ty),*) => { $(
            hops::<$t, Heap>(&mut sp, "Heap", None);
            hops::<$t, GuardMem>(&mut sp, "Guard", None);
            hops::<$t, Stack<4096>>(&mut sp, "Stack<4096>", Some(if size_of::<$t>() == 0 { usize::MAX } else { 4096 / size_of::<$t>() }));
            hops::<$t, StackN<16, 4096>>(&mut sp, "StackN<16,4096>", Some(16));
            hops::<$t, Empty>(&mut sp, "Empty", Some(0));
        )* };
    }
    all_backends!(Z0, Z0d, Z0a64, U1d, U2, P3d, W8d, T12d, S16d, Q16, S24d, A32d, A64d, M40d, L160d);
    monalloc::set_mode(monalloc::MODE_OFF);
}
#[cfg(not(feature = "alloc"))]
pub fn meta_grid(_ctx: &mut Ctx) {}

// ---------------------------------------------------------------------------------------------
// Stack<SIZE> with element alignments above 8, driven through bytes only. The inline buffer is not aligned for such types on
// the pinned tree (known finding D10), so no typed reference is ever formed here and the element types have no drop glue:
// values go in as `AnyValueRaw`, come out as `as_bytes()` of the vector and of removal handles. Whatever an implementation
// does about alignment, `capacity()` elements must fit inside the vector object, read back intact, and survive a move of
// the vector to another address.

#[repr(C, align(16))]
#[derive(Clone, Copy)]
struct P16([u64; 2]);
#[repr(C, align(32))]
#[derive(Clone, Copy)]
struct P32([u64; 4]);
#[repr(C, align(64))]
#[derive(Clone, Copy)]
struct P64([u64; 8]);

#[repr(C, align(128))]
struct Arena2([u8; 4096]);

pub fn stack_overaligned(ctx: &mut Ctx) {
    if hvcore::rigapi::borrow_tracking() {
        // the inline backends trip the borrow models on the pinned tree (DESIGN.md 1.8); a report would end the interpreter
        return;
    }
    let mut sp = Sp::new(ctx, "stack-overaligned", "Stack-bytes-only".into());
    sp.ctx.ordinal = 0;
    fn pattern(i: usize, size: usize) -> Vec<u8> {
        (0..size).map(|k| (hvcore::util::mix64((i as u64) << 16 | k as u64) & 0xff) as u8).collect()
    }
    fn run<P: 'static + Copy, const SIZE: usize>(sp: &mut Sp, pname: &str) {
        type V<const S: usize> = AnyVec<dyn TNone, Stack<S>>;
        let size = size_of::<P>();
        let vsize = size_of::<V<SIZE>>();
        for off in [0usize, 8, 16, 24, 40, 56, 72, 104] {
            if !sp.take() {
                continue;
            }
            let opsig = "fill-move-drain";
            let desc = format!("{pname}:Stack<{SIZE}>|vector placed at offset {off} (mod 128), then moved by 8 / 24 bytes");
            let r = guarded(|| -> Result<(), (&'static str, String)> {
                let mut arena = Box::new(Arena2([0xC3; 4096]));
                let base = arena.0.as_mut_ptr() as usize;
                let place = |o: usize| (base + 512 + o) as *mut V<SIZE>;
                let inside = |v: &V<SIZE>, what: &str| -> Result<(), (&'static str, String)> {
                    let lo = v as *const _ as usize;
                    let b = v.as_bytes();
                    let (s, e) = (b.as_ptr() as usize, b.as_ptr() as usize + b.len());
                    if b.len() != v.len() * size || (b.len() > 0 && (s < lo || e > lo + vsize)) {
                        return Err(("view", format!("{what}: as_bytes() covers {:#x}..{:#x} ({} bytes for {} elements of {size}), the vector object is {:#x}..{:#x}", s, e, b.len(), v.len(), lo, lo + vsize)));
                    }
                    Ok(())
                };
                let content = |v: &V<SIZE>, first: usize, what: &str| -> Result<(), (&'static str, String)> {
                    for (k, chunk) in v.as_bytes().chunks(size).enumerate() {
                        if chunk != &pattern(first + k, size)[..] {
                            return Err(("model", format!("{what}: element {k} of {} does not hold the bytes that were stored", v.len())));
                        }
                    }
                    Ok(())
                };
                unsafe { place(off).write(AnyVec::new::<P>()) };
                let v = unsafe { &mut *place(off) };
                let cap = v.capacity();
                if cap > SIZE / size {
                    return Err(("capacity", format!("capacity() = {cap} for {size}-byte elements in {SIZE} bytes")));
                }
                let lay = v.element_layout();
                for i in 0..cap {
                    let val = pattern(i, size);
                    let mut tmp = std::mem::MaybeUninit::<P>::uninit();
                    unsafe { std::ptr::copy_nonoverlapping(val.as_ptr(), tmp.as_mut_ptr() as *mut u8, size) };
                    let raw = unsafe { AnyValueRaw::new(std::ptr::NonNull::new_unchecked(tmp.as_mut_ptr() as *mut u8), size, TypeId::of::<P>()) };
                    v.push(raw);
                    inside(v, "after a push")?;
                }
                if v.len() != cap || v.capacity() != cap || v.element_layout() != lay || v.element_typeid() != TypeId::of::<P>() {
                    return Err(("capacity", format!("after filling to capacity {cap}: len {} capacity {} (the vector's own fields changed)", v.len(), v.capacity())));
                }
                content(v, 0, "after filling to capacity")?;
                // spare capacity of the full vector is empty and inside
                let sb = v.spare_bytes_mut();
                if !sb.is_empty() {
                    return Err(("view", format!("spare_bytes_mut() of a full vector is {} bytes", sb.len())));
                }
                // canaries around the vector object
                let a = &arena.0;
                let o0 = 512 + off;
                if a[..o0].iter().any(|b| *b != 0xC3) || a[o0 + vsize..].iter().any(|b| *b != 0xC3) {
                    return Err(("capacity", "bytes outside the vector object were written while filling it to capacity".into()));
                }
                // move the vector (a plain move, as into or out of a collection)
                for delta in [8usize, 24] {
                    let from = place(off + delta - if delta == 8 { 8 } else { 16 });
                    let to = place(off + delta);
                    unsafe {
                        let moved = from.read();
                        std::ptr::write_bytes(from as *mut u8, 0xC3, vsize);
                        to.write(moved);
                    }
                    let v = unsafe { &mut *to };
                    inside(v, "after moving the vector")?;
                    if v.len() != cap {
                        return Err(("model", format!("after moving the vector: len {} (was {cap})", v.len())));
                    }
                    content(v, 0, "after moving the vector")?;
                }
                let v = unsafe { &mut *place(off + 24) };
                // take elements out again: handles report the stored bytes
                if cap >= 2 {
                    let h = v.pop().unwrap();
                    if h.as_bytes() != &pattern(cap - 1, size)[..] || h.size() != size {
                        return Err(("model", "pop() hands out other bytes than were stored last".into()));
                    }
                    drop(h);
                    let h = v.remove(0);
                    if h.as_bytes() != &pattern(0, size)[..] {
                        return Err(("model", "remove(0) hands out other bytes than were stored first".into()));
                    }
                    drop(h);
                    inside(v, "after pop and remove")?;
                    content(v, 1, "after pop and remove(0)")?;
                }
                unsafe { std::ptr::drop_in_place(place(off + 24)) };
                Ok(())
            });
            match r {
                Ok(Ok(())) => {}
                Ok(Err((kind, m))) => {
                    // an element outside the inline buffer is both a wrong view (C12) and a broken capacity promise (C11)
                    sp.viol(kind, opsig, m.clone(), &desc);
                    if kind == "view" {
                        sp.viol("capacity", opsig, m, &desc);
                    }
                }
                Err(m) => sp.viol("model", opsig, format!("panicked: {m}"), &desc),
            }
            sp.ctx.stats.bump("overaligned_stack_placements", 1);
            sp.done(&desc, true, opsig);
        }
    }
    run::<P16, 64>(&mut sp, "P16");
    run::<P16, 100>(&mut sp, "P16");
    run::<P32, 128>(&mut sp, "P32");
    run::<P32, 200>(&mut sp, "P32");
    run::<P64, 256>(&mut sp, "P64");
    run::<P64, 512>(&mut sp, "P64");
    run::<P64, 600>(&mut sp, "P64");
}

// ---------------------------------------------------------------------------------------------
// A growable user backend whose fresh storage is not empty (room for two elements from the start): clones, empty clones,
// growth past the initial room, lazy clones into it.

pub fn prealloc_backend(ctx: &mut Ctx) {
    use crate::guardmem::{GuardPre2, PRE};
    let mut sp = Sp::new(ctx, "prealloc-backend", "GuardPre2".into());
    sp.ctx.ordinal = 0;
    type Tr = dyn Cloneable;
    fn run<T: Elem>(sp: &mut Sp) {
        if pointer_free_only() && T::HEAP {
            return;
        }
        for n in [0usize, 1, 2, 3, 5, 9] {
            for growth in [hvcore::guard::Growth::Exact, hvcore::guard::Growth::Double] {
                if !sp.take() {
                    continue;
                }
                reg::reset();
                let opsig = "clone/clone_empty/grow";
                let desc = format!("{}:GuardPre2({growth:?})|len={n}", T::NAME);
                let mask = if T::ID_BITS == 0 { 0 } else { (1u64 << T::ID_BITS.min(32)) - 1 };
                let r = guarded(|| -> Result<(), (&'static str, String)> {
                    let b = GuardPre2(GuardMem { growth });
                    let mut v: AnyVec<Tr, GuardPre2> = AnyVec::new_in::<T>(b);
                    if v.capacity() != PRE && size_of::<T>() != 0 {
                        return Err(("capacity", format!("a fresh vector on a backend that starts with room for {PRE} reports capacity {}", v.capacity())));
                    }
                    let want: Vec<Id> = (1..=n as u64).map(|i| i & mask).collect();
                    for i in &want {
                        v.push(AnyValueWrapper::new(T::make(*i)));
                        if v.len() > v.capacity() {
                            return Err(("len>cap", format!("len {} > capacity {} after a push", v.len(), v.capacity())));
                        }
                    }
                    let same = |x: &AnyVec<Tr, GuardPre2>, w: &[Id], what: &str| match snap_ids::<T, _, _>(x) {
                        Ok(ids) if ids == w => Ok(()),
                        other => Err(("model", format!("{what}: {other:?}, expected {w:?}"))),
                    };
                    same(&v, &want, "after the pushes")?;
                    let _ = reg::take_clone_log();
                    let c = v.clone();
                    if c.len() > c.capacity() {
                        return Err(("len>cap", format!("the clone has len {} > capacity {}", c.len(), c.capacity())));
                    }
                    same(&c, &want, "the clone")?;
                    let mut log: Vec<Id> = reg::take_clone_log().into_iter().map(|(_, i)| i).collect();
                    let mut w2 = want.clone();
                    log.sort();
                    w2.sort();
                    if log != w2 {
                        return Err(("clone-count", format!("clone() made the Clone::clone calls {log:?}, expected {w2:?}")));
                    }
                    // an empty clone starts with the backend's initial room, and grows past it
                    let mut e = v.clone_empty();
                    if e.len() != 0 {
                        return Err(("model", format!("clone_empty() has len {}", e.len())));
                    }
                    for j in 0..n {
                        e.push(v.at(j).lazy_clone());
                        if e.len() > e.capacity() {
                            return Err(("len>cap", format!("len {} > capacity {} while filling the empty clone", e.len(), e.capacity())));
                        }
                    }
                    same(&e, &want, "the empty clone filled with lazy clones")?;
                    // a heap vector cloned into this backend
                    #[cfg(feature = "alloc")]
                    {
                        let mut h: AnyVec<Tr, any_vec::mem::Heap> = AnyVec::new::<T>();
                        for i in &want {
                            h.push(AnyValueWrapper::new(T::make(*i)));
                        }
                        let mut g = h.clone_empty_in(GuardPre2(GuardMem { growth }));
                        for j in 0..n {
                            g.insert(0, h.at(j).lazy_clone());
                        }
                        let rev: Vec<Id> = want.iter().rev().copied().collect();
                        same(&g, &rev, "clone_empty_in(this backend) filled in reverse")?;
                        let gg = g.clone();
                        same(&gg, &rev, "its clone")?;
                    }
                    drop(c);
                    drop(e);
                    same(&v, &want, "the original after its clones are gone")?;
                    drop(v);
                    if T::TRACKED && reg::live_total(T::TAG) != 0 {
                        return Err(("leak", format!("{} instances alive after everything was dropped", reg::live_total(T::TAG))));
                    }
                    Ok(())
                });
                match r {
                    Ok(Ok(())) => {}
                    Ok(Err((kind, m))) => sp.viol(kind, opsig, m, &desc),
                    Err(m) => sp.viol("model", opsig, format!("panicked: {m}"), &desc),
                }
                hvcore::guard::scan();
                sp.drain_reg(opsig, &desc);
                sp.ctx.stats.bump("prealloc_backend_cases", 1);
                sp.done(&desc, true, opsig);
            }
        }
    }
    run::<W8d>(&mut sp);
    run::<U1d>(&mut sp);
    run::<S24d>(&mut sp);
    run::<L160d>(&mut sp);
    run::<Z0d>(&mut sp);
}

// ---------------------------------------------------------------------------------------------
// C17 / C18: raw parts with a stateful user builder over the heap storage, and hand-built parts for a vector that owns nothing

#[cfg(feature = "alloc")]
mod statefulheap {
    use any_vec::mem::{Heap, MemBuilder};
    use std::alloc::Layout;
    use std::cell::Cell;
    thread_local! {
        pub static LIVE: Cell<i64> = Cell::new(0);
        pub static CLONES: Cell<u64> = Cell::new(0);
        pub static NEXT: Cell<u32> = Cell::new(1);
    }
    /// A builder with identity and a destructor, producing the library's own heap storage.
    pub struct TaggedHeap {
        pub id: u32,
        /// how many storages this builder object (and the ones it was cloned from) has handed out
        pub builds: u32,
    }
    impl TaggedHeap {
        pub fn new() -> Self {
            LIVE.with(|l| l.set(l.get() + 1));
            TaggedHeap { id: NEXT.with(|n| { let v = n.get(); n.set(v + 1); v }), builds: 0 }
        }
    }
    impl Clone for TaggedHeap {
        fn clone(&self) -> Self {
            CLONES.with(|c| c.set(c.get() + 1));
            let mut b = TaggedHeap::new();
            b.builds = self.builds;
            b
        }
    }
    impl Drop for TaggedHeap {
        fn drop(&mut self) {
            LIVE.with(|l| l.set(l.get() - 1));
        }
    }
    impl MemBuilder for TaggedHeap {
        type Mem = <Heap as MemBuilder>::Mem;
        fn build(&mut self, element_layout: Layout) -> Self::Mem {
            self.builds += 1;
            Heap.build(element_layout)
        }
    }
}

#[cfg(feature = "alloc")]
pub fn c17_builders(ctx: &mut Ctx) {
    use any_vec::mem::Heap;
    use any_vec::RawParts;
    use statefulheap::*;
    if ctx.tool_mode && cfg!(miri) {
        return;
    }
    let mut sp = Sp::new(ctx, "rawparts-builders", "TaggedHeap".into());
    sp.ctx.ordinal = 0;
    monalloc::set_mode(monalloc::MODE_GUARD);
    let _ = monalloc::drain_events();
    fn stateful<T: Elem>(sp: &mut Sp) {
        for times in 1..=3u32 {
            if !sp.take() {
                continue;
            }
            reg::reset();
            let opsig = "raw_round_trip(stateful builder)";
            let desc = format!("{}:TaggedHeap|round trip x{times}", T::NAME);
            let (live0, clones0) = (LIVE.with(|l| l.get()), CLONES.with(|c| c.get()));
            let before = monalloc::stats().live;
            monalloc::window_open();
            let r = guarded(|| -> Result<(), String> {
                let mask = if T::ID_BITS == 0 { 0 } else { (1u64 << T::ID_BITS.min(32)) - 1 };
                let b = TaggedHeap::new();
                let id = b.id;
                let mut v: AnyVec<dyn TNone, TaggedHeap> = AnyVec::new_in::<T>(b);
                for i in 1..=4u64 {
                    v.push(AnyValueWrapper::new(T::make(i & mask)));
                }
                for _ in 0..times {
                    let parts = v.into_raw_parts();
                    // (which builder object the parts carry is not pinned down: a clone of it would do, as long as none is leaked)
                    let _ = id;
                    if LIVE.with(|l| l.get()) != live0 + 1 {
                        return Err(format!("{} builders alive while the vector is decomposed (expected exactly its own)", LIVE.with(|l| l.get()) - live0));
                    }
                    v = unsafe { AnyVec::from_raw_parts(parts) };
                }
                match snap_ids::<T, _, _>(&v) {
                    Ok(ids) if ids == (1..=4u64).map(|i| i & mask).collect::<Vec<_>>() => {}
                    other => return Err(format!("rebuilt vector holds {other:?}")),
                }
                // the builder a vector carries is the one that built its storage: an empty clone's builder has handed out
                // one storage more than the source's had when it was copied
                let e = v.clone_empty();
                let pe = e.into_raw_parts();
                if pe.mem_builder.builds != 2 {
                    return Err(format!("the builder stored in clone_empty()'s result has built {} storage(s); it was copied from a builder that had built 1 and then built the clone's", pe.mem_builder.builds));
                }
                drop(unsafe { AnyVec::<dyn TNone, TaggedHeap>::from_raw_parts(pe) });
                drop(v);
                Ok(())
            });
            monalloc::window_reset();
            let (live1, clones1) = (LIVE.with(|l| l.get()), CLONES.with(|c| c.get()));
            match r {
                Ok(Ok(())) => {
                    if live1 != live0 {
                        sp.viol("rawparts", opsig, format!("{} builder(s) never dropped after {times} round trip(s)", live1 - live0), &desc);
                    }
                    let _ = (clones0, clones1);
                }
                Ok(Err(m)) => sp.viol("rawparts", opsig, m, &desc),
                Err(m) => sp.viol("rawparts", opsig, format!("panicked: {m}"), &desc),
            }
            sp.drain_alloc(opsig, &desc);
            if monalloc::stats().live != before {
                sp.viol("alloc-leak", opsig, format!("{} heap block(s) left allocated", monalloc::stats().live as i64 - before as i64), &desc);
            }
            sp.drain_reg(opsig, &desc);
            sp.ctx.stats.bump("raw_round_trips_checked", times as u64);
            sp.done(&desc, true, opsig);
        }
    }
    fn handbuilt<T: Elem>(sp: &mut Sp) {
        // the parts of an Empty-backed prototype re-targeted to the heap backend: capacity 0, nothing owned, any handle value
        for (hname, handle) in [("dangling::<u8>", std::ptr::NonNull::<u8>::dangling()), ("dangling::<u64>", std::ptr::NonNull::<u64>::dangling().cast::<u8>()), ("dangling::<T>", std::ptr::NonNull::<T>::dangling().cast::<u8>())] {
            if !sp.take() {
                continue;
            }
            reg::reset();
            let opsig = "from_raw_parts(hand-built, capacity 0)";
            let desc = format!("{}:Heap|parts of an Empty vector with mem_handle = {hname}", T::NAME);
            let before = monalloc::stats();
            monalloc::window_open();
            let r = guarded(|| -> Result<(), String> {
                let proto: AnyVec<dyn TNone, Empty> = AnyVec::new_in::<T>(Empty);
                let p = proto.into_raw_parts();
                let parts: RawParts<Heap> = RawParts {
                    mem_builder: Heap,
                    mem_handle: handle,
                    capacity: 0,
                    len: 0,
                    element_layout: p.element_layout,
                    element_typeid: p.element_typeid,
                    element_drop: p.element_drop,
                    element_clone: p.element_clone,
                };
                let v: AnyVec<dyn TNone, Heap> = unsafe { AnyVec::from_raw_parts(parts) };
                if v.len() != 0 || v.capacity() != 0 || v.element_typeid() != TypeId::of::<T>() {
                    return Err(format!("the rebuilt vector reports len {} capacity {}", v.len(), v.capacity()));
                }
                // dropped while it owns nothing: the allocator must not be called
                drop(v);
                // and one that is used first
                let proto: AnyVec<dyn TNone, Empty> = AnyVec::new_in::<T>(Empty);
                let p = proto.into_raw_parts();
                let parts: RawParts<Heap> = RawParts { mem_builder: Heap, mem_handle: handle, capacity: 0, len: 0, element_layout: p.element_layout, element_typeid: p.element_typeid, element_drop: p.element_drop, element_clone: p.element_clone };
                let mut v: AnyVec<dyn TNone, Heap> = unsafe { AnyVec::from_raw_parts(parts) };
                let mask = if T::ID_BITS == 0 { 0 } else { (1u64 << T::ID_BITS.min(32)) - 1 };
                v.push(AnyValueWrapper::new(T::make(1 & mask)));
                v.push(AnyValueWrapper::new(T::make(2 & mask)));
                match snap_ids::<T, _, _>(&v) {
                    Ok(ids) if ids == vec![1 & mask, 2 & mask] => {}
                    other => return Err(format!("the rebuilt vector holds {other:?} after two pushes")),
                }
                v.clear();
                v.shrink_to_fit();
                drop(v);
                Ok(())
            });
            monalloc::window_reset();
            match r {
                Ok(Ok(())) => {}
                Ok(Err(m)) => sp.viol("rawparts", opsig, m, &desc),
                Err(m) => sp.viol("rawparts", opsig, format!("panicked: {m}"), &desc),
            }
            sp.drain_alloc(opsig, &desc);
            let after = monalloc::stats();
            if after.live != before.live {
                sp.viol("alloc-leak", opsig, format!("{} heap block(s) left allocated", after.live as i64 - before.live as i64), &desc);
            }
            sp.drain_reg(opsig, &desc);
            sp.done(&desc, true, opsig);
        }
    }
    stateful::<W8d>(&mut sp);
    stateful::<S24d>(&mut sp);
    stateful::<Z0d>(&mut sp);
    stateful::<A32d>(&mut sp);
    handbuilt::<W8d>(&mut sp);
    handbuilt::<U1d>(&mut sp);
    handbuilt::<A32d>(&mut sp);
    handbuilt::<Z0d>(&mut sp);
    monalloc::set_mode(monalloc::MODE_OFF);
}
#[cfg(not(feature = "alloc"))]
pub fn c17_builders(_ctx: &mut Ctx) {}

// ---------------------------------------------------------------------------------------------
// `swap` between values of different runtime types must be refused (C04); on the inline backends, so that the build without
// the `alloc` feature runs it too (C19).

pub fn swap_type_mismatch(ctx: &mut Ctx) {
    let mut sp = Sp::new(ctx, "swap-types", "Stack-swap".into());
    sp.ctx.ordinal = 0;
    fn run<A: Elem, B: Elem>(sp: &mut Sp) {
        let same = TypeId::of::<A>() == TypeId::of::<B>();
        for how in 0..6u8 {
            if !sp.take() {
                continue;
            }
            reg::reset();
            let names = ["element.swap(wrapper)", "wrapper.swap(element)", "element.swap(element of another vector)", "pop handle.swap(element)", "element.swap(raw)", "remove handle.swap(wrapper)"];
            let opsig = names[how as usize];
            let desc = format!("{}<->{}|{opsig}", A::NAME, B::NAME);
            let ma = if A::ID_BITS == 0 { 0 } else { (1u64 << A::ID_BITS.min(32)) - 1 };
            let mb = if B::ID_BITS == 0 { 0 } else { (1u64 << B::ID_BITS.min(32)) - 1 };
            let mut va: AnyVec<dyn TNone, Stack<2048>> = AnyVec::new::<A>();
            let mut vb: AnyVec<dyn TNone, StackN<4, 2048>> = AnyVec::new_in::<B>(StackN::<4, 2048>);
            for i in 1..=3u64 {
                va.push(AnyValueWrapper::new(A::make(i & ma)));
                vb.push(AnyValueWrapper::new(B::make((i + 10) & mb)));
            }
            let r = guarded(|| match how {
                0 => {
                    let mut w = AnyValueWrapper::new(B::make(20 & mb));
                    va.at_mut(1).swap(&mut w);
                }
                1 => {
                    let mut w = AnyValueWrapper::new(B::make(20 & mb));
                    w.swap(&mut *va.at_mut(1));
                }
                2 => {
                    let mut x = va.at_mut(0);
                    let mut y = vb.at_mut(2);
                    x.swap(&mut *y);
                }
                3 => {
                    let mut h = vb.pop().unwrap();
                    h.swap(&mut *va.at_mut(2));
                    drop(h);
                }
                4 => {
                    let mut slot = RawSlot::<B>::new(21 & mb);
                    let mut raw = unsafe { AnyValueRaw::new(slot.ptr(), size_of::<B>(), TypeId::of::<B>()) };
                    va.at_mut(0).swap(&mut raw);
                    drop(slot);
                }
                _ => {
                    let mut h = va.remove(1);
                    let mut w = AnyValueWrapper::new(B::make(22 & mb));
                    h.swap(&mut w);
                    drop(w);
                    drop(h);
                }
            });
            if same {
                if let Err(m) = &r {
                    sp.viol("type-reject", opsig, format!("a swap between values of the same type was refused: {m}"), &desc);
                }
            } else {
                if r.is_ok() {
                    sp.viol("type-admit", opsig, "a swap between values of different runtime types was carried out (no panic)".into(), &desc);
                }
                // refused: nothing may have changed in either vector (removal handles that were in flight are gone with their element)
                let wa: Vec<Id> = if how == 5 { vec![1 & ma, 3 & ma] } else { (1..=3u64).map(|i| i & ma).collect() };
                let wb: Vec<Id> = if how == 3 { vec![11 & mb, 12 & mb] } else { (11..=13u64).map(|i| i & mb).collect() };
                match (snap_ids::<A, _, _>(&va), snap_ids::<B, _, _>(&vb)) {
                    (Ok(x), Ok(y)) if x == wa && y == wb => {}
                    other => sp.viol("type-reject", opsig, format!("after the refused swap the vectors hold {other:?}, expected {wa:?} / {wb:?}"), &desc),
                }
                sp.ctx.stats.bump("rejections", 1);
            }
            drop(va);
            drop(vb);
            for (tag, tracked) in [(A::TAG, A::TRACKED), (B::TAG, B::TRACKED)] {
                if tracked && reg::live_total(tag) != 0 {
                    sp.viol("leak", opsig, format!("{} instance(s) alive after everything was dropped", reg::live_total(tag)), &desc);
                }
            }
            sp.drain_reg(opsig, &desc);
            sp.done(&desc, true, opsig);
        }
    }
    run::<W8d, W8d2>(&mut sp);
    run::<W8d2, W8d>(&mut sp);
    run::<W8d, W8>(&mut sp);
    run::<S16d, S16d2>(&mut sp);
    run::<W8d, S16d>(&mut sp);
    run::<U1d, U1>(&mut sp);
    run::<Z0d, Z0>(&mut sp);
    run::<W8d, W8d>(&mut sp);
    run::<S24d, S24d>(&mut sp);
}
