//! Scale workloads: the same oracles as the small-scope families (Vec model, identity registry, Clone log, handle reports),
//! on vectors whose byte size crosses the thresholds a chunked / paged / narrowed-integer implementation would care about
//! (4 KiB, 8 KiB, 64 KiB, indices and offsets beyond 2^16), and on one element type larger than 64 KiB.
//!
//! The operations are aimed: an erased `remove(i)` whose tail is exactly k pages, one element more and one element less; a
//! handle at the first index whose byte offset reaches 2^16; a drain whose tail is several pages and not a multiple of
//! the word size; clones, clears and drops of more than 16 / 256 elements.
//!
//! Which property a symptom belongs to is decided by its kind (`props::kinds_for`), as everywhere else.

#![cfg(feature = "alloc")]

use std::any::TypeId;
use std::mem::size_of;

use any_vec::any_value::{AnyValue, AnyValueCloneable, AnyValueMut, AnyValueRaw, AnyValueTypeless, AnyValueTypelessMut, AnyValueWrapper};
use any_vec::traits::Cloneable;
use any_vec::AnyVec;

use hvcore::drive::Ctx;
use hvcore::elems::*;
use hvcore::monalloc;
use hvcore::reg::{self, Id};
use hvcore::rigapi::guarded;

use crate::caps::MemCaps;
use crate::guardmem::GuardMem;
use crate::rig::RawSlot;
use crate::special::Sp;

type V<M> = AnyVec<dyn Cloneable, M>;

fn ids_of<T: Elem, M: MemCaps>(v: &V<M>) -> Result<Vec<Id>, String> {
    if v.len() > v.capacity() {
        return Err(format!("len {} > capacity {}", v.len(), v.capacity()));
    }
    let Some(tv) = v.downcast_ref::<T>() else { return Err("downcast_ref::<T>() of the vector's own type is None".into()) };
    let mut out = Vec::with_capacity(tv.len());
    for (i, e) in tv.as_slice().iter().enumerate() {
        match e.probe() {
            Ok(id) => out.push(id),
            Err(r) => return Err(format!("element {i} is not an element: raw {r:#x}")),
        }
    }
    Ok(out)
}

struct St<T: Elem, M: MemCaps> {
    v: V<M>,
    m: Vec<Id>,
    next: u64,
    _p: std::marker::PhantomData<T>,
}

impl<T: Elem, M: MemCaps> St<T, M> {
    fn mask() -> u64 {
        if T::ID_BITS == 0 {
            0
        } else {
            (1u64 << T::ID_BITS.min(32)) - 1
        }
    }
    fn fresh(&mut self) -> Id {
        self.next += 1;
        // ids repeat for narrow identity fields: the model compares sequences, the registry counts instances
        (self.next.wrapping_mul(7) + 3) & Self::mask()
    }
    fn build(n: usize) -> Self {
        reg::reset();
        let mut s = St { v: M::new_vec::<dyn Cloneable, T>(0), m: Vec::with_capacity(n), next: 0, _p: Default::default() };
        let mut tv = s.v.downcast_mut::<T>().expect("typed view");
        for i in 0..n {
            let id = (i as u64) & Self::mask();
            tv.push(T::make(id));
            s.m.push(id);
        }
        s
    }
    /// First difference between the vector and the model, if any.
    fn diff(&self) -> Option<String> {
        match ids_of::<T, M>(&self.v) {
            Err(e) => Some(e),
            Ok(got) => {
                if got.len() != self.m.len() {
                    return Some(format!("length {} but Vec has {}", got.len(), self.m.len()));
                }
                got.iter().zip(self.m.iter()).position(|(a, b)| a != b).map(|i| {
                    let lo = i.saturating_sub(1);
                    let hi = (i + 3).min(got.len());
                    format!("first difference at index {i} of {}: vector {:?}, Vec {:?}", got.len(), &got[lo..hi], &self.m[lo..hi])
                })
            }
        }
    }
}

/// Indices whose tail `(len - 1 - i) * size` is k pages, one element less, one element more.
fn tail_indices(len: usize, size: usize) -> Vec<usize> {
    let mut out = Vec::new();
    if size == 0 {
        return vec![0, len / 2];
    }
    for bytes in [4096usize, 8192, 16384, 65536] {
        for d in [-1isize, 0, 1] {
            let t = (bytes / size) as isize + d;
            // exact page multiples only exist when the size divides the page; the neighbours are kept anyway
            if t >= 0 && (t as usize) < len {
                out.push(len - 1 - t as usize);
            }
        }
    }
    out.extend([0, 8, len / 2]);
    out.sort();
    out.dedup();
    out.retain(|i| *i < len);
    out
}

fn scale_one<T: Elem, M: MemCaps>(sp: &mut Sp, n: usize) {
    let size = size_of::<T>();
    let cfgname = format!("{}:{}-scale", T::NAME, M::NAME);
    sp.cfg = cfgname.clone();
    sp.ctx.stats.cfgs.insert(cfgname.clone());
    macro_rules! stage {
        ($opsig:expr, $desc:expr, $body:expr) => {{
            if sp.take() {
                let opsig: &str = $opsig;
                let desc: String = format!("{cfgname}|len={n}|{}", $desc);
                // inside the monitoring window: heap blocks get guard zones, poison, layout records
                monalloc::window_open();
                let r: Result<Result<(), (&'static str, String)>, String> = guarded($body);
                monalloc::window_reset();
                match r {
                    Ok(Ok(())) => {}
                    Ok(Err((kind, m))) => sp.viol(kind, opsig, m, &desc),
                    Err(m) => sp.viol("model", opsig, format!("panicked: {m}"), &desc),
                }
                sp.drain_alloc(opsig, &desc);
                sp.drain_reg(opsig, &desc);
                sp.ctx.stats.bump("scale_stages", 1);
                sp.ctx.stats.bump("scale_elements", n as u64);
                sp.done(&desc, true, opsig);
            }
        }};
    }
    let model_err = |s: &St<T, M>| s.diff().map(|d| ("model", d));

    // --- handles at offsets around 4 KiB and 64 KiB (C13)
    stage!("get/at/get_mut/at_mut", "handles at byte offsets around 4 KiB and 64 KiB", || {
        let mut s = St::<T, M>::build(n);
        let base = s.v.as_bytes().as_ptr() as usize;
        let mut idx: Vec<usize> = vec![0, n - 1, n / 2];
        if size > 0 {
            for off in [4096usize, 65536, 131072] {
                for d in [-1isize, 0, 1] {
                    let i = (off / size) as isize + d;
                    if i >= 0 && (i as usize) < n {
                        idx.push(i as usize);
                    }
                }
            }
        }
        for &i in &idx {
            let want = s.m[i];
            let addr = base + i * size;
            let probe = |b: Option<&T>| b.map(|x| x.probe().unwrap_or(u64::MAX));
            let e = s.v.get(i).ok_or(("handle", format!("get({i}) is None on length {n}")))?;
            if probe(e.downcast_ref::<T>()) != Some(want) || (size > 0 && e.as_bytes().as_ptr() as usize != addr) || e.size() != size {
                return Err(("handle", format!("get({i}) refers to id {:?} at {:#x} (size {}), element {i} is id {want} at {addr:#x}", probe(e.downcast_ref::<T>()), e.as_bytes().as_ptr() as usize, e.size())));
            }
            let e = s.v.at(i);
            if probe(e.downcast_ref::<T>()) != Some(want) || (size > 0 && e.as_bytes().as_ptr() as usize != addr) {
                return Err(("handle", format!("at({i}) refers to id {:?} at {:#x}, element {i} is id {want} at {addr:#x}", probe(e.downcast_ref::<T>()), e.as_bytes().as_ptr() as usize)));
            }
            let mut e = s.v.get_mut(i).ok_or(("handle", format!("get_mut({i}) is None on length {n}")))?;
            let got = e.downcast_mut::<T>().map(|x| x.probe().unwrap_or(u64::MAX));
            if got != Some(want) || (size > 0 && e.as_bytes().as_ptr() as usize != addr) {
                return Err(("handle", format!("get_mut({i}) refers to id {got:?}, element {i} is id {want}")));
            }
            drop(e);
            // write through at_mut: exactly element i changes
            let id = s.fresh();
            let mut e = s.v.at_mut(i);
            e.downcast_mut::<T>().ok_or(("handle", format!("at_mut({i}).downcast_mut() is None")))?.set_id(id);
            drop(e);
            s.m[i] = id;
            if let Some(d) = s.diff() {
                return Err(("handle", format!("after a write through at_mut({i}): {d}")));
            }
        }
        Ok(())
    });

    // --- element-wise operations whose tail is k pages (C01)
    stage!("remove/insert/swap_remove", "erased and typed element operations with tails around k pages", || {
        let mut s = St::<T, M>::build(n);
        for i in tail_indices(n, size) {
            if i >= s.v.len() {
                continue;
            }
            // erased remove, handle dropped
            let h = s.v.remove(i);
            let got = h.downcast_ref::<T>().map(|x| x.probe().unwrap_or(u64::MAX));
            drop(h);
            let want = s.m.remove(i);
            if got != Some(want) {
                return Err(("model", format!("remove({i}) handed out id {got:?}, Vec removes {want}")));
            }
            if let Some(e) = model_err(&s) {
                return Err(("model", format!("after erased remove({i}): {}", e.1)));
            }
            // erased insert of a wrapper, of a raw value, typed insert
            let id = s.fresh();
            s.v.insert(i, AnyValueWrapper::new(T::make(id)));
            s.m.insert(i, id);
            let id = s.fresh();
            let mut slot = RawSlot::<T>::new(id);
            let raw = unsafe { AnyValueRaw::new(slot.ptr(), size_of::<T>(), TypeId::of::<T>()) };
            s.v.insert(i, raw);
            slot.consumed();
            s.m.insert(i, id);
            let id = s.fresh();
            s.v.downcast_mut::<T>().unwrap().insert(i, T::make(id));
            s.m.insert(i, id);
            if let Some(e) = model_err(&s) {
                return Err(("model", format!("after three inserts at {i}: {}", e.1)));
            }
            // typed remove, erased swap_remove moved to another vector
            let t = s.v.downcast_mut::<T>().unwrap().remove(i);
            let got = t.probe().ok();
            drop(t);
            let want = s.m.remove(i);
            let h = s.v.swap_remove(i);
            let got2 = h.downcast_ref::<T>().map(|x| x.probe().unwrap_or(u64::MAX));
            drop(h);
            let want2 = s.m.swap_remove(i);
            if got != Some(want) || got2 != Some(want2) {
                return Err(("model", format!("typed remove({i}) / swap_remove({i}) handed out {got:?} / {got2:?}, Vec gives {want} / {want2}")));
            }
            // one more remove so that the next round starts from the original length
            let h = s.v.remove(i);
            drop(h);
            s.m.remove(i);
            let id = s.fresh();
            s.v.push(AnyValueWrapper::new(T::make(id)));
            s.m.push(id);
            if let Some(e) = model_err(&s) {
                return Err(("model", format!("after typed remove / swap_remove / remove at {i}: {}", e.1)));
            }
        }
        Ok(())
    });

    // --- drain / splice with long tails and long ranges (C02, C14)
    stage!("drain/splice", "range operations with tails of several pages and long ranges", || {
        let mut s = St::<T, M>::build(n);
        let probe_e = |x: Option<&T>| x.map(|x| x.probe().unwrap_or(u64::MAX));
        // short range at the front, the whole rest is the tail (not a multiple of the word size for odd element sizes)
        for (a, b, typed) in [(0usize, 8usize, false), (8, 16, false), (5, 9, true), (1, 4, false)] {
            let want: Vec<Id> = s.m.drain(a..b).collect();
            let got: Vec<Option<Id>> = if typed {
                let mut tv = s.v.downcast_mut::<T>().unwrap();
                tv.drain(a..b).map(|t| t.probe().ok()).collect()
            } else {
                let mut d = s.v.drain(a..b);
                let l = d.len();
                if l != b - a || d.size_hint() != (l, Some(l)) {
                    return Err(("iter", format!("drain({a}..{b}).len()={l}, size_hint()={:?}", d.size_hint())));
                }
                let first = d.next().map(|e| probe_e(e.downcast_ref::<T>()).unwrap_or(u64::MAX));
                let last = d.next_back().map(|e| probe_e(e.downcast_ref::<T>()).unwrap_or(u64::MAX));
                let mid: Vec<Option<Id>> = d.by_ref().map(|e| probe_e(e.downcast_ref::<T>())).collect();
                drop(d);
                let mut all = vec![first];
                all.extend(mid);
                all.push(last);
                all
            };
            if got != want.iter().map(|i| Some(*i)).collect::<Vec<_>>() {
                return Err(("model", format!("drain({a}..{b}) yielded {got:?}, Vec yields {want:?}")));
            }
            if let Some(e) = model_err(&s) {
                return Err(("model", format!("after drain({a}..{b}) of a long vector: {}", e.1)));
            }
        }
        // tails of k pages
        for i in tail_indices(s.v.len(), size) {
            let len = s.v.len();
            if i + 2 >= len {
                continue;
            }
            // growing splice: 2 out, 5 in
            let ids: Vec<Id> = (0..5).map(|_| s.fresh()).collect();
            let vals: Vec<AnyValueWrapper<T>> = ids.iter().map(|i| AnyValueWrapper::new(T::make(*i))).collect();
            drop(s.v.splice(i..i + 2, vals));
            s.m.splice(i..i + 2, ids.iter().copied());
            if let Some(e) = model_err(&s) {
                return Err(("model", format!("after splice({i}..{}, 5 items): {}", i + 2, e.1)));
            }
            // shrinking splice: 6 out, 1 in (typed)
            let id = s.fresh();
            {
                let mut tv = s.v.downcast_mut::<T>().unwrap();
                drop(tv.splice(i..i + 6, [T::make(id)]));
            }
            s.m.splice(i..i + 6, [id]);
            if let Some(e) = model_err(&s) {
                return Err(("model", format!("after typed splice({i}..{}, 1 item): {}", i + 6, e.1)));
            }
            // drain of three with the same tail, consumed from the back only
            let mut d = s.v.drain(i..i + 3);
            let last = d.next_back().map(|e| probe_e(e.downcast_ref::<T>()).unwrap_or(u64::MAX));
            drop(d);
            let want: Vec<Id> = s.m.drain(i..i + 3).collect();
            if last != Some(want[2]) {
                return Err(("model", format!("drain({i}..{}).next_back() yielded {last:?}, Vec yields {}", i + 3, want[2])));
            }
            if let Some(e) = model_err(&s) {
                return Err(("model", format!("after drain({i}..{}): {}", i + 3, e.1)));
            }
        }
        // a long range: everything but the first two and last two
        let len = s.v.len();
        let want: Vec<Id> = s.m.drain(2..len - 2).collect();
        let mut d = s.v.drain(2..len - 2);
        if d.len() != len - 4 {
            return Err(("iter", format!("drain(2..{}).len()={}", len - 2, d.len())));
        }
        let k = len - 4 - 3;
        let x = d.nth(k).map(|e| probe_e(e.downcast_ref::<T>()).unwrap_or(u64::MAX));
        let left = d.len();
        drop(d);
        if x != Some(want[k]) || left != 2 {
            return Err(("iter", format!("drain(2..{}).nth({k}) yielded {x:?} with {left} left, Vec yields {} with 2 left", len - 2, want[k])));
        }
        if let Some(e) = model_err(&s) {
            return Err(("model", format!("after the long drain: {}", e.1)));
        }
        Ok(())
    });

    // --- iteration over a long vector (C14, C13)
    stage!("iter", "iteration and searches over a long vector", || {
        let mut s = St::<T, M>::build(n);
        let probe_e = |x: Option<&T>| x.map(|x| x.probe().unwrap_or(u64::MAX)).unwrap_or(u64::MAX);
        let mut it = s.v.iter();
        if it.len() != n || it.size_hint() != (n, Some(n)) {
            return Err(("iter", format!("iter().len()={} size_hint()={:?} over {n} elements", it.len(), it.size_hint())));
        }
        let mut bad = None;
        for (i, e) in it.by_ref().enumerate() {
            if probe_e(e.downcast_ref::<T>()) != s.m[i] && bad.is_none() {
                bad = Some(i);
            }
        }
        if let Some(i) = bad {
            return Err(("iter", format!("the {i}-th item of iter() is not element {i}")));
        }
        if it.next().is_some() || it.next_back().is_some() || it.len() != 0 {
            return Err(("iter", "iter() is not exhausted after n items".into()));
        }
        let back: Vec<Id> = s.v.iter().rev().take(4).map(|e| probe_e(e.downcast_ref::<T>())).collect();
        let want: Vec<Id> = s.m.iter().rev().take(4).copied().collect();
        let c = s.v.iter().count();
        let mut im = s.v.iter_mut();
        let k = n - 3;
        let x = im.nth(k).map(|mut e| e.downcast_mut::<T>().map(|x| x.probe().unwrap_or(u64::MAX)).unwrap_or(u64::MAX));
        let l = im.len();
        drop(im);
        if back != want || c != n || x != Some(s.m[k]) || l != 2 {
            return Err(("iter", format!("rev().take(4)={back:?} (Vec {want:?}), count()={c}, iter_mut().nth({k})={x:?} then len()={l}")));
        }
        Ok(())
    });

    // --- clone, clear, drop of a long vector (C08, C03)
    stage!("clone/clear/drop", "clone, clear and drop of a long vector", || {
        let mut s = St::<T, M>::build(n);
        let _ = reg::take_clone_log();
        let c = s.v.clone();
        let mut log = reg::take_clone_log();
        let mut want: Vec<(u32, Id)> = s.m.iter().map(|i| (T::TAG, *i)).collect();
        log.sort();
        want.sort();
        if log != want {
            return Err(("clone-count", format!("clone() of {n} elements made {} Clone::clone calls; expected one per element ({})", log.len(), want.len())));
        }
        match ids_of::<T, M>(&c) {
            Ok(got) if got == s.m => {}
            Ok(got) => {
                let i = got.iter().zip(s.m.iter()).position(|(a, b)| a != b).unwrap_or(got.len().min(s.m.len()));
                return Err(("model", format!("the clone differs from the original at index {i} (lengths {} / {})", got.len(), s.m.len())));
            }
            Err(e) => return Err(("garbage", format!("the clone is invalid: {e}"))),
        }
        if size > 0 && c.as_bytes().as_ptr() == s.v.as_bytes().as_ptr() {
            return Err(("shared-storage", "the clone shares the original's storage".into()));
        }
        if T::TRACKED && reg::live_total(T::TAG) != 2 * n as i64 {
            return Err(("value-accounting", format!("{} live instances with two vectors of {n}", reg::live_total(T::TAG))));
        }
        drop(c);
        if T::TRACKED && reg::live_total(T::TAG) != n as i64 {
            return Err(("leak", format!("{} live instances after dropping the clone of a vector of {n} (expected {n})", reg::live_total(T::TAG))));
        }
        if let Some(e) = model_err(&s) {
            return Err(("model", format!("the original changed when its clone was dropped: {}", e.1)));
        }
        s.v.clear();
        if T::TRACKED && reg::live_total(T::TAG) != 0 {
            return Err(("leak", format!("{} live instances after clear() of {n} elements", reg::live_total(T::TAG))));
        }
        // refill partially and drop the vector
        for k in [17usize, 300] {
            let mut v2: V<M> = M::new_vec::<dyn Cloneable, T>(0);
            for _ in 0..k {
                let id = s.fresh();
                v2.push(AnyValueWrapper::new(T::make(id)));
            }
            drop(v2);
            if T::TRACKED && reg::live_total(T::TAG) != 0 {
                return Err(("leak", format!("{} live instances after dropping a vector of {k} elements", reg::live_total(T::TAG))));
            }
        }
        Ok(())
    });
}

/// One element type larger than 64 KiB: sizes and offsets that do not fit 16 bits (C12, C13, C01).
fn huge_elements<M: MemCaps>(sp: &mut Sp) {
    type T = G65Kd;
    let size = size_of::<T>();
    let cfgname = format!("G65Kd:{}-scale", M::NAME);
    sp.cfg = cfgname.clone();
    sp.ctx.stats.cfgs.insert(cfgname.clone());
    if !sp.take() {
        return;
    }
    let opsig = "huge-element";
    let desc = format!("{cfgname}|element size {size}|views, handles, swaps, moves");
    monalloc::window_open();
    let r: Result<Result<(), (&'static str, String)>, String> = guarded(|| {
        reg::reset();
        let mut v: V<M> = M::new_vec::<dyn Cloneable, T>(4);
        let mut m: Vec<Id> = Vec::new();
        for id in 1..=3u64 {
            v.push(AnyValueWrapper::new(T::make(id)));
            m.push(id);
        }
        let check = |v: &V<M>, m: &Vec<Id>, what: &str| -> Result<(), (&'static str, String)> {
            match ids_of::<T, M>(v) {
                Ok(got) if &got == m => Ok(()),
                other => Err(("model", format!("{what}: vector {other:?}, Vec {m:?}"))),
            }
        };
        check(&v, &m, "after three pushes")?;
        let cap = v.capacity();
        let base = v.as_bytes().as_ptr() as usize;
        if v.as_bytes().len() != 3 * size || v.as_bytes_mut().len() != 3 * size {
            return Err(("view", format!("as_bytes().len()={} / as_bytes_mut().len()={} for 3 elements of {size} bytes", v.as_bytes().len(), v.as_bytes_mut().len())));
        }
        let spare = v.spare_bytes_mut();
        if spare.len() != (cap - 3) * size || spare.as_ptr() as usize != base + 3 * size {
            return Err(("view", format!("spare_bytes_mut() is {} bytes at offset {} (capacity {cap}, len 3, element size {size})", spare.len(), spare.as_ptr() as usize - base)));
        }
        {
            let tv = v.downcast_ref::<T>().unwrap();
            if tv.as_slice().as_ptr() as usize != base || tv.as_slice().len() != 3 {
                return Err(("view", "the typed slice does not alias the byte view".into()));
            }
        }
        for i in 0..3 {
            let e = v.at(i);
            if e.size() != size || e.as_bytes().len() != size || e.as_bytes().as_ptr() as usize != base + i * size {
                return Err(("handle", format!("at({i}) reports size {} / {} bytes at offset {} (element size {size})", e.size(), e.as_bytes().len(), e.as_bytes().as_ptr() as usize - base)));
            }
            let mut e = v.at_mut(i);
            if e.as_bytes_mut().len() != size {
                return Err(("handle", format!("at_mut({i}).as_bytes_mut() is {} bytes", e.as_bytes_mut().len())));
            }
        }
        // swaps: element <-> wrapper, element <-> raw (both directions), element <-> element of another vector
        let mut w = AnyValueWrapper::new(T::make(10));
        v.at_mut(0).swap(&mut w);
        let back = w.downcast::<T>().map(|t| t.probe().ok());
        m[0] = 10;
        if back != Some(Some(1)) {
            return Err(("handle", format!("element.swap(wrapper) handed back {back:?}, expected id 1")));
        }
        check(&v, &m, "after element.swap(wrapper)")?;
        let mut slot = RawSlot::<T>::new(11);
        let mut raw = unsafe { AnyValueRaw::new(slot.ptr(), size, TypeId::of::<T>()) };
        v.at_mut(1).swap(&mut raw);
        m[1] = 11;
        check(&v, &m, "after element.swap(raw)")?;
        raw.swap(&mut *v.at_mut(2));
        m[2] = 2;
        check(&v, &m, "after raw.swap(element)")?;
        drop(slot);
        let mut v2: V<M> = M::new_vec::<dyn Cloneable, T>(2);
        v2.push(AnyValueWrapper::new(T::make(20)));
        {
            let mut a = v.at_mut(0);
            let mut b = v2.at_mut(0);
            a.swap(&mut *b);
        }
        m[0] = 20;
        check(&v, &m, "after element.swap(element of another vector)")?;
        check(&v2, &vec![10], "the other vector after the swap")?;
        // moves: remove -> push into the other vector; lazy clone; insert in the middle
        let h = v.remove(1);
        v2.push(h);
        m.remove(1);
        check(&v, &m, "after remove(1)")?;
        check(&v2, &vec![10, 11], "after push(removal handle)")?;
        let _ = reg::take_clone_log();
        v.insert(1, v2.at(0).lazy_clone());
        m.insert(1, 10);
        let log = reg::take_clone_log();
        if log != vec![(T::TAG, 10)] {
            return Err(("clone-count", format!("insert(lazy clone) made the Clone::clone calls {log:?}")));
        }
        check(&v, &m, "after insert(1, lazy clone)")?;
        let c = v.clone();
        check(&c, &m, "the clone")?;
        drop(c);
        drop(v);
        drop(v2);
        if reg::live_total(T::TAG) != 0 {
            return Err(("leak", format!("{} live instances after everything was dropped", reg::live_total(T::TAG))));
        }
        Ok(())
    });
    monalloc::window_reset();
    match r {
        Ok(Ok(())) => {}
        Ok(Err((kind, m))) => sp.viol(kind, opsig, m, &desc),
        Err(m) => sp.viol("model", opsig, format!("panicked: {m}"), &desc),
    }
    sp.drain_alloc(opsig, &desc);
    sp.drain_reg(opsig, &desc);
    sp.done(&desc, true, opsig);
}

pub fn run(ctx: &mut Ctx) {
    if ctx.tool_mode {
        return;
    }
    // heap blocks get guard zones, poison and layout checks (kinds read by C05 / C18)
    monalloc::set_mode(monalloc::MODE_GUARD);
    let _ = monalloc::drain_events();
    let mut sp = Sp::new(ctx, "scale", "scale".into());
    sp.ctx.ordinal = 0;
    use any_vec::mem::Heap;
    // byte sizes of about 70 KiB (beyond 2^16 with every element size), at least 600 elements
    fn n_for<T>() -> usize {
        (70_000 / size_of::<T>().max(1)).max(600) + 7
    }
    scale_one::<U1d, Heap>(&mut sp, n_for::<U1d>());
    scale_one::<P3d, Heap>(&mut sp, n_for::<P3d>());
    scale_one::<W8d, Heap>(&mut sp, n_for::<W8d>());
    scale_one::<T12d, GuardMem>(&mut sp, n_for::<T12d>());
    scale_one::<S24d, Heap>(&mut sp, n_for::<S24d>());
    scale_one::<L160d, GuardMem>(&mut sp, n_for::<L160d>());
    scale_one::<W8, GuardMem>(&mut sp, n_for::<W8>());
    scale_one::<Z0d, Heap>(&mut sp, 70_001);
    huge_elements::<Heap>(&mut sp);
    huge_elements::<GuardMem>(&mut sp);
    monalloc::set_mode(monalloc::MODE_OFF);
}
