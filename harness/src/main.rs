#![allow(dead_code, clippy::too_many_arguments, clippy::type_complexity)]
mod caps;
mod configs;
mod guardmem;
mod props;
mod rig;
#[cfg(feature = "alloc")]
mod scale;
mod special;
use hvcore::{drive, monalloc, rigapi, util};

#[global_allocator]
static GLOBAL: monalloc::MonAlloc = monalloc::MonAlloc;

fn main() {
    rigapi::install_panic_hook();
    let mut argv = std::env::args().skip(1);
    let cmd = argv.next().unwrap_or_default();
    let args = util::Args::parse(argv);
    match cmd.as_str() {
        "run" => {
            let shard = args.get_or("shard", "0/1");
            let (si, sn) = shard.split_once('/').map(|(a, b)| (a.parse().unwrap_or(0), b.parse().unwrap_or(1))).unwrap_or((0, 1));
            let prop = args.get_or("prop", "C01");
            let only = args.get("only").map(|s| {
                let p: Vec<&str> = s.split('|').collect();
                (p[0].to_string(), p[1].to_string(), p[2].parse::<u64>().unwrap_or(0))
            });
            let seed = args.num("seed", 1);
            rigapi::set_borrow_tracking(args.flag("sb"));
            let mut ctx = drive::Ctx {
                kinds: props::kinds_for(&prop),
                prop,
                tier: args.get_or("tier", "quick"),
                seed,
                shard: si,
                nshards: sn,
                tool_mode: args.flag("tool") || cfg!(miri),
                sub: args.get_or("sub", ""),
                verbose: args.flag("verbose"),
                only,
                cfg_filter: args.get("cfg").map(|s| s.to_string()),
                stats: drive::Stats::default(),
                viols: Vec::new(),
                rng: util::Rng::new(seed),
                ordinal: 0,
                family: String::new(),
                max_viols: args.num("max-viols", 40) as usize,
                sample_every: 997,
                per_sig: Default::default(),
                leaks_ok_default: false,
                digest_on: args.flag("digest"),
                sampled: cfg!(miri) || args.flag("sample"),
                lean: cfg!(miri) || args.flag("lean"),
                quota: args.num("quota", 1),
                strata: Default::default(),
                crumb: args.get("crumb").and_then(|p| std::fs::OpenOptions::new().create(true).write(true).truncate(true).open(p).ok()),
            };
            props::run(&mut ctx);
            ctx.emit();
        }
        "configs" => {
            for c in configs::all() {
                println!("{} size={} align={} drop={} cap={:?} core={}", c.name, c.elem.size, c.elem.align, c.elem.needs_drop, c.fixed_cap, c.core);
            }
        }
        _ => {
            eprintln!("usage: hv run --prop Cxx --tier quick|thorough --seed N --shard i/n [--tool] [--only fam|cfg|ordinal] [--cfg substr] [--verbose]");
            std::process::exit(2);
        }
    }
}
