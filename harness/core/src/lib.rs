//! Library-independent part of the harness: monitors, model, drivers. Does not depend on
//! `any_vec`, so it is compiled once (optimised) and not rebuilt when `/repo` changes.
#![allow(dead_code, clippy::too_many_arguments, clippy::type_complexity)]
pub mod drive;
pub mod elems;
pub mod fam;
pub mod guard;
pub mod model;
pub mod monalloc;
pub mod ops;
pub mod reg;
pub mod rigapi;
pub mod util;
