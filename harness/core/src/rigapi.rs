//! The object-safe interface between the generic rig (thin crate) and the drivers.

use crate::elems::ElemInfo;
use crate::monalloc;
use crate::ops::{Op, Outcome, Val};
use std::panic::{catch_unwind, AssertUnwindSafe};

#[derive(Clone, Copy, Debug, PartialEq, Eq)]
pub enum MemKind {
    Heap,
    Guard,
    Stack,
    StackN,
    Empty,
}

#[derive(Clone, Debug)]
pub struct CfgInfo {
    pub name: String,
    pub elem: ElemInfo,
    pub mem: MemKind,
    pub mem_name: &'static str,
    pub traits: &'static str,
    pub cloneable: bool,
    pub resizable: bool,
    pub fixed_cap: Option<usize>,
}

#[derive(Clone, Debug, Default)]
pub struct Snap {
    pub vals: Vec<Val>,
    pub len: usize,
    pub cap: usize,
    pub base: usize,
    pub typeid_ok: bool,
    pub layout_ok: bool,
    pub is_empty: bool,
    /// `as_bytes()`: address, length, and whether its bytes equal the typed slice's bytes
    pub bytes_base: usize,
    pub bytes_len: usize,
    pub bytes_eq: bool,
    /// storage pointer modulo the element alignment
    pub misalign: usize,
    /// what the typed view's own getters say: (len, capacity, is_empty, as_ptr); None when no typed view could be had
    pub typed_getters: Option<(usize, usize, bool, usize)>,
}

pub trait DynRig {
    fn cfg(&self) -> &CfgInfo;
    fn nvecs(&self) -> usize;
    /// Executes the operation (real library calls) under `catch_unwind`.
    fn exec(&mut self, op: &Op) -> Outcome;
    /// Typed `as_slice()` snapshot.
    fn snap(&self, v: usize) -> Snap;
    /// Erased views: `get(i)` for `i in 0..len+2` and `iter()`.
    fn erased_views(&self, v: usize) -> (Vec<Val>, Vec<Val>);
    /// Replace vector `v` by a fresh empty one with (at least) the given capacity.
    fn reset_vec(&mut self, v: usize, cap: usize);
    /// Drop all vectors (under catch_unwind); returns panic message if any.
    fn teardown(&mut self) -> Option<String>;
}

/// Placeholder rig (used when a corrupt rig has to be leaked).
pub struct NullRig;
impl DynRig for NullRig {
    fn cfg(&self) -> &CfgInfo {
        unreachable!()
    }
    fn nvecs(&self) -> usize {
        0
    }
    fn exec(&mut self, _op: &Op) -> Outcome {
        Outcome::default()
    }
    fn snap(&self, _v: usize) -> Snap {
        Snap::default()
    }
    fn erased_views(&self, _v: usize) -> (Vec<Val>, Vec<Val>) {
        (Vec::new(), Vec::new())
    }
    fn reset_vec(&mut self, _v: usize, _cap: usize) {}
    fn teardown(&mut self) -> Option<String> {
        None
    }
}

pub type BoxRig = Box<dyn DynRig>;
pub type RigFactory = fn(usize) -> BoxRig;

#[derive(Clone)]
pub struct CfgEntry {
    pub name: String,
    pub make: RigFactory,
    pub elem: ElemInfo,
    pub mem: MemKind,
    pub traits: &'static str,
    pub cloneable: bool,
    pub resizable: bool,
    pub fixed_cap: Option<usize>,
    /// member of the reduced table used by expensive tiers / tools
    pub core: bool,
}

// ---------------------------------------------------------------------------------------------
// panic plumbing

thread_local! {
    static LAST_PANIC: std::cell::RefCell<String> = const { std::cell::RefCell::new(String::new()) };
}

pub fn install_panic_hook() {
    std::panic::set_hook(Box::new(|info| {
        monalloc::panic_begin();
        let msg = if let Some(s) = info.payload().downcast_ref::<&str>() {
            (*s).to_string()
        } else if let Some(s) = info.payload().downcast_ref::<String>() {
            s.clone()
        } else {
            "<non-string panic>".to_string()
        };
        let loc = info.location().map(|l| format!(" @{}:{}", l.file().rsplit('/').next().unwrap_or(""), l.line())).unwrap_or_default();
        if std::env::var_os("HV_PANIC_TRACE").is_some() {
            eprintln!("[panic] {msg}{loc}\n{}", std::backtrace::Backtrace::force_capture());
        }
        LAST_PANIC.with(|p| *p.borrow_mut() = format!("{msg}{loc}"));
    }));
}
pub fn take_panic_msg() -> String {
    LAST_PANIC.with(|p| std::mem::take(&mut *p.borrow_mut()))
}

/// Run `f` under `catch_unwind`; returns the panic message on unwind.
pub fn guarded<R>(f: impl FnOnce() -> R) -> Result<R, String> {
    let r = catch_unwind(AssertUnwindSafe(f));
    match r {
        Ok(v) => Ok(v),
        Err(_) => {
            monalloc::panic_end();
            Err(take_panic_msg())
        }
    }
}

// ---------------------------------------------------------------------------------------------
/// Is the run under an interpreter with borrow tracking (Stacked Borrows) switched on? The inline backends trip the
/// borrow models on the unchanged tree (DESIGN.md 1.8, outside the properties), so operations that create an inline-backed
/// vector inside a pointer-backed configuration are skipped in such runs.
static BORROW_TRACKING: std::sync::atomic::AtomicBool = std::sync::atomic::AtomicBool::new(false);
pub fn set_borrow_tracking(on: bool) {
    BORROW_TRACKING.store(on, std::sync::atomic::Ordering::Relaxed);
}
pub fn borrow_tracking() -> bool {
    BORROW_TRACKING.load(std::sync::atomic::Ordering::Relaxed)
}
