#!/usr/bin/env python3
"""Regenerate /verif/MANIFEST.json from checks_table.py + manifest_meta.py."""
import json, os, sys
ROOT = os.path.dirname(os.path.dirname(os.path.abspath(__file__)))
sys.path.insert(0, ROOT)
from checks_table import CHECKS
from manifest_meta import META, NOT_APPLICABLE, HOOK_COMMITS

props = [json.loads(l)["id"] for l in open(os.path.join(ROOT, "properties.jsonl"))]
checks = []
for p in props:
    if p not in CHECKS or p not in META:
        continue
    m = META[p]
    checks.append({
        "property_id": p,
        "quick_cmd": f"python3 check.py {p} --tier quick",
        "thorough_cmd": f"python3 check.py {p} --tier thorough",
        "evidence_file": f"/verif/evidence/{p}.json",
        "replay_cmd_template": f"python3 check.py {p} --replay {{path}}",
        "engine": "hv",
        "level_claimed": {"category": CHECKS[p]["level"], "text": m["text"], "design_ref": m["design_ref"]},
        "level_note": m["note"],
        "technique": m["technique"],
    })
claimed = {c["property_id"] for c in checks}
na = [{"property_id": p, "reason": NOT_APPLICABLE.get(p, "check not built yet (work in progress; see DESIGN.md section 6)")} for p in props if p not in claimed]
man = {
    "version": 1,
    "setup_cmd": "python3 check.py --setup",
    "hooks": {
        "guard": "--cfg any_vec_verif",
        "enable": "RUSTFLAGS='--cfg any_vec_verif' for the Miri builds only (build-compatibility shim); native, ASan and valgrind builds use the crate exactly as shipped",
        "baseline_off_cmd": "cd /repo && cargo test --workspace --no-fail-fast --offline",
        "source_commits": HOOK_COMMITS,
        "add_only": True,
    },
    "engines": [{
        "name": "hv",
        "path": "/verif/harness",
        "serves_properties": sorted(claimed),
        "kind_free_text": "runtime-monitoring harness: real any_vec driven by enumerated and random workloads under an identity registry, a Vec reference model, an instrumented user-defined backend, an instrumented global allocator, a fault injector, and Miri/ASan/valgrind; driver /verif/check.py",
    }],
    "checks": checks,
    "not_applicable": na,
    "notes": "Runtime monitoring only: every verdict means 'held on the executions produced'. Known findings: /verif/KNOWN_FINDINGS.txt.",
}
json.dump(man, open(os.path.join(ROOT, "MANIFEST.json"), "w"), indent=1)
print(f"{len(checks)} checks, {len(na)} not claimed")
