//! Per-property workloads: which families run and which symptom kinds decide the property.

use crate::configs;
use hvcore::drive::Ctx;
use hvcore::fam::{self, HistParams};

pub const REGISTRY_KINDS: [&str; 8] = ["double-drop", "corrupt-drop", "corrupt-clone", "clone-of-dead", "dup", "dead-visible", "leak", "value-accounting"];

pub fn kinds_for(prop: &str) -> Vec<&'static str> {
    let mut k: Vec<&'static str> = match prop {
        "C01" => vec!["model", "garbage"],
        "C02" => vec!["model", "garbage", "iter"],
        "C03" => REGISTRY_KINDS.to_vec(),
        "C08" => vec!["model", "garbage", "clone-count", "shared-storage", "handle", "meta"],
        "C09" => vec!["model", "clone-count", "lazy", "dup", "double-drop", "handle"],
        "C10" => vec!["capacity", "len>cap", "model", "garbage"],
        "C14" => vec!["iter", "model"],
        _ => vec![],
    };
    k.push("harness");
    k
}

fn hist(thorough: bool, elems: bool, ranges: bool, capacity: bool, clones: bool) -> HistParams {
    HistParams {
        histories: if thorough { 400 } else { 12 },
        ops: if thorough { 2000 } else { 300 },
        max_len: if thorough { 5000 } else { 200 },
        ranges,
        elems,
        capacity,
        clones,
        invalid_pct: 6,
    }
}

pub fn run(ctx: &mut Ctx) {
    let mut cfgs = configs::all();
    if ctx.sub == "light" || ctx.tool_mode {
        cfgs.retain(|c| c.core);
    }
    let thorough = ctx.thorough();
    let l = if thorough { 7 } else { 4 };
    match ctx.prop.as_str() {
        "C01" => {
            fam::exhaustive(ctx, "elem", &cfgs, l, true, &fam::elem_seqs);
            fam::histories(ctx, "elem-hist", &cfgs, &hist(thorough, true, false, true, false));
        }
        "C02" => {
            fam::exhaustive(ctx, "range", &cfgs, l, true, &fam::range_ops);
            fam::histories(ctx, "range-hist", &cfgs, &hist(thorough, false, true, false, false));
        }
        "C03" => {
            fam::exhaustive(ctx, "elem", &cfgs, l.min(5), false, &fam::elem_seqs);
            fam::exhaustive(ctx, "range", &cfgs, l.min(5) - 1, false, &fam::range_ops);
            fam::exhaustive(ctx, "clone", &cfgs, 3, false, &fam::clone_ops);
            fam::exhaustive(ctx, "lazy", &cfgs, 2, false, &fam::lazy_ops);
            fam::histories(ctx, "mixed-hist", &cfgs, &hist(thorough, true, true, true, true));
        }
        "C08" => {
            cfgs.retain(|c| c.cloneable);
            fam::exhaustive(ctx, "clone", &cfgs, l, false, &fam::clone_ops);
        }
        "C09" => {
            cfgs.retain(|c| c.cloneable && c.elem.needs_drop);
            fam::exhaustive(ctx, "lazy", &cfgs, l.min(5), false, &fam::lazy_ops);
        }
        "C10" => {
            cfgs.retain(|c| c.resizable);
            fam::exhaustive(ctx, "capacity", &cfgs, l, false, &fam::cap_ops);
            fam::histories(ctx, "capacity-hist", &cfgs, &hist(thorough, true, true, true, false));
        }
        "C14" => {
            fam::exhaustive(ctx, "iter", &cfgs, l, false, &fam::iter_ops);
            fam::exhaustive(ctx, "range", &cfgs, l, false, &fam::range_ops);
        }
        other => {
            eprintln!("unknown property {other}");
            std::process::exit(2);
        }
    }
}
