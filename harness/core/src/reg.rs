//! Identity registry, violation sink and fault injector (thread-local).
//!
//! The registry is fed only by the element types' own `make` / `Clone::clone` /
//! `Drop::drop`, i.e. by the very calls the library makes. Monitors never panic
//! (they may run during unwinding): they append a violation record.

use std::cell::RefCell;
use std::collections::{BTreeMap, HashMap};

pub type Id = u64;

#[derive(Clone, Debug)]
pub struct Violation {
    /// Symptom class, e.g. `double-drop`, `model`, `guard`.
    pub kind: &'static str,
    pub detail: String,
}

#[derive(Default)]
pub struct Fault {
    /// Panic on the k-th user-code invocation (1-based) when armed.
    pub countdown: Option<u64>,
    pub fired: bool,
    pub counting: bool,
    pub user_calls: u64,
    pub fired_at: Option<&'static str>,
}

#[derive(Default)]
pub struct Reg {
    /// (type tag, id) -> number of live instances carrying that id.
    pub live: HashMap<(u32, Id), i64>,
    pub makes: u64,
    pub drops: u64,
    pub clones: u64,
    /// Clone events (source ids) since the last `take_clone_log`.
    pub clone_log: Vec<(u32, Id)>,
    pub drop_log: Vec<(u32, Id)>,
    pub viol: Vec<Violation>,
    pub fault: Fault,
    pub counters: BTreeMap<String, u64>,
    /// When false, `make`/`drop`/`clone` do not touch the table (used by
    /// harness-internal scratch values).
    pub log_events: bool,
    /// addresses of the live heap payloads of the heap-owning element types (native runs only): lets
    /// `probe`/`drop` recognise a garbage or already freed payload pointer without dereferencing it
    pub payloads: std::collections::HashSet<usize>,
    pub retired_payloads: std::collections::HashSet<usize>,
}

thread_local! {
    static REG: RefCell<Reg> = RefCell::new(Reg::default());
}

pub fn with<R>(f: impl FnOnce(&mut Reg) -> R) -> R {
    // the registry's own bookkeeping allocations are never attributed to the library
    crate::monalloc::user_enter();
    let r = REG.with(|r| f(&mut r.borrow_mut()));
    crate::monalloc::user_exit();
    r
}

pub fn reset() {
    with(|r| {
        let counters = std::mem::take(&mut r.counters);
        // payload bookkeeping survives a reset: values created before may still be dropped after it
        let payloads = std::mem::take(&mut r.payloads);
        let retired = std::mem::take(&mut r.retired_payloads);
        *r = Reg::default();
        r.counters = counters;
        r.payloads = payloads;
        r.retired_payloads = retired;
        if r.retired_payloads.len() > 100_000 {
            r.retired_payloads.clear();
        }
    });
}

thread_local! {
    static SAFE_PAYLOADS: std::cell::Cell<bool> = const { std::cell::Cell::new(false) };
}
/// Native runs: heap-owning elements validate their payload pointer against the table before using it
/// (a duplicated payload is then reported as `double-drop`, garbage as `corrupt-*`, and the process survives).
/// Tool runs (Miri, ASan, valgrind) switch this off so that the tool sees the real double free / wild read.
pub fn set_safe_payloads(on: bool) {
    SAFE_PAYLOADS.with(|c| c.set(on));
}
pub fn safe_payloads() -> bool {
    SAFE_PAYLOADS.with(|c| c.get())
}
pub fn payload_add(addr: usize) {
    with(|r| {
        r.retired_payloads.remove(&addr);
        r.payloads.insert(addr);
    });
}
pub fn payload_known(addr: usize) -> bool {
    with(|r| r.payloads.contains(&addr))
}
pub fn payload_was_freed(addr: usize) -> bool {
    with(|r| r.retired_payloads.contains(&addr))
}
/// Returns true when the payload was live (and may now be freed).
pub fn payload_remove(addr: usize) -> bool {
    with(|r| {
        let was = r.payloads.remove(&addr);
        if was {
            r.retired_payloads.insert(addr);
        }
        was
    })
}

pub fn violation(kind: &'static str, detail: String) {
    with(|r| {
        if r.viol.len() < 64 {
            r.viol.push(Violation { kind, detail })
        }
    });
}

pub fn take_violations() -> Vec<Violation> {
    with(|r| std::mem::take(&mut r.viol))
}

pub fn count(key: &str, n: u64) {
    with(|r| *r.counters.entry(key.to_string()).or_insert(0) += n);
}

pub fn on_make(tag: u32, id: Id) {
    with(|r| {
        r.makes += 1;
        *r.live.entry((tag, id)).or_insert(0) += 1;
    });
}

/// Called from `Drop::drop` of a tracked element. `ok` = canary intact.
pub fn on_drop(tag: u32, id: Id, ok: bool, name: &'static str) -> bool {
    with(|r| {
        r.drops += 1;
        if !ok {
            if r.viol.len() < 64 {
                r.viol.push(Violation {
                    kind: "corrupt-drop",
                    detail: format!("{name}: destructor ran on bytes that are not a live element (raw id {id:#x})"),
                });
            }
            return false;
        }
        r.drop_log.push((tag, id));
        let c = r.live.entry((tag, id)).or_insert(0);
        if *c <= 0 {
            if r.viol.len() < 64 {
                r.viol.push(Violation {
                    kind: "double-drop",
                    detail: format!("{name}: element id {id} destroyed while no live instance exists"),
                });
            }
            false
        } else {
            *c -= 1;
            if *c == 0 {
                r.live.remove(&(tag, id));
            }
            true
        }
    })
}

/// Called from `Clone::clone` of a tracked element (source side).
pub fn on_clone(tag: u32, id: Id, ok: bool, name: &'static str) {
    with(|r| {
        r.clones += 1;
        if !ok {
            if r.viol.len() < 64 {
                r.viol.push(Violation {
                    kind: "corrupt-clone",
                    detail: format!("{name}: clone source is not a live element (raw id {id:#x})"),
                });
            }
            return;
        }
        r.clone_log.push((tag, id));
        let c = r.live.entry((tag, id)).or_insert(0);
        if *c <= 0 {
            if r.viol.len() < 64 {
                r.viol.push(Violation {
                    kind: "clone-of-dead",
                    detail: format!("{name}: element id {id} cloned while no live instance exists"),
                });
            }
        }
        *c += 1;
    });
}

pub fn live_count(tag: u32, id: Id) -> i64 {
    with(|r| r.live.get(&(tag, id)).copied().unwrap_or(0))
}

pub fn live_total(tag: u32) -> i64 {
    with(|r| r.live.iter().filter(|((t, _), _)| *t == tag).map(|(_, c)| *c).sum())
}

pub fn live_snapshot(tag: u32) -> BTreeMap<Id, i64> {
    with(|r| {
        r.live
            .iter()
            .filter(|((t, _), c)| *t == tag && **c != 0)
            .map(|((_, i), c)| (*i, *c))
            .collect()
    })
}

pub fn take_clone_log() -> Vec<(u32, Id)> {
    with(|r| std::mem::take(&mut r.clone_log))
}
pub fn take_drop_log() -> Vec<(u32, Id)> {
    with(|r| std::mem::take(&mut r.drop_log))
}
pub fn event_counts() -> (u64, u64, u64) {
    with(|r| (r.makes, r.drops, r.clones))
}

// ---------------------------------------------------------------------------------------------
// Fault injector

pub const INJECTED: &str = "HV-INJECTED-FAULT";

/// Start counting user-code invocations (fault-free reference run).
pub fn fault_count_begin() {
    with(|r| {
        r.fault = Fault { counting: true, ..Fault::default() };
    });
}
pub fn fault_arm(k: u64) {
    with(|r| {
        r.fault = Fault { countdown: Some(k), counting: true, ..Fault::default() };
    });
}
pub fn fault_end() -> (u64, bool, Option<&'static str>) {
    with(|r| {
        let f = std::mem::take(&mut r.fault);
        (f.user_calls, f.fired, f.fired_at)
    })
}
pub fn fault_fired() -> bool {
    with(|r| r.fault.fired)
}

/// Every element `Drop`, element `Clone` and replacement-iterator `next` calls this first.
/// Panics (once) when the armed countdown reaches zero, unless already unwinding.
#[inline]
pub fn user_call(site: &'static str) {
    let fire = with(|r| {
        if !r.fault.counting {
            return false;
        }
        r.fault.user_calls += 1;
        if let Some(k) = r.fault.countdown {
            if !r.fault.fired && r.fault.user_calls == k && !std::thread::panicking() {
                r.fault.fired = true;
                r.fault.fired_at = Some(site);
                return true;
            }
        }
        false
    });
    if fire {
        std::panic::panic_any(INJECTED);
    }
}
