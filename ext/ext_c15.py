"""C15: Send/Sync/Clone constraints are enforced on elements and mirrored by handles.

Three observers (DESIGN.md 3/C15):
 1. a *running* program evaluates, for each concrete type, `X: Send`, `X: Sync`, `X: Clone`, `T: SatisfyTraits<Tr>` and prints the
    truth table; the oracle formulas of the property are applied to it here;
 2. hostile one-function programs (element lacking a declared constraint, clone() without Cloneable, capacity calls on a fixed
    backend, ...) are built in one batch, each paired with a control differing in one line;
 3. what is admitted is executed: a multi-threaded workload (vectors and handles moved through channels and shared under
    thread::scope, concurrent readers, lazy clones into per-thread vectors) under Miri's data-race detector.
The accept/reject observation in 1-2 is rustc's trait solver (trusted base, see MANIFEST level_note)."""
import itertools
import json
import os
import subprocess
import time

from . import common

TRAITS = {
    "None": ("dyn any_vec::traits::None", False, False, False),
    "Send": ("dyn Send", True, False, False),
    "Sync": ("dyn Sync", False, True, False),
    "SendSync": ("dyn Send + Sync", True, True, False),
    "Cl": ("dyn Cloneable", False, False, True),
    "ClSend": ("dyn Cloneable + Send", True, False, True),
    "ClSync": ("dyn Cloneable + Sync", False, True, True),
    "ClSendSync": ("dyn Cloneable + Send + Sync", True, True, True),
}
# backend name -> (type expr, builder Send, builder Sync, mem Send, mem Sync)
BACKENDS = {
    "Heap": ("Heap", True, True, True, True),
    "Stack": ("Stack<64>", True, True, True, True),
    "StackN": ("StackN<4, 64>", True, True, True, True),
    "Empty": ("Empty", True, True, True, True),
    "B_nosend": ("UB<NoSend, Ok>", False, True, True, True),
    "B_nosync": ("UB<NoSync, Ok>", True, False, True, True),
    "M_nosend": ("UB<Ok, NoSend>", True, True, False, True),
    "M_nosync": ("UB<Ok, NoSync>", True, True, True, False),
    "BM_neither": ("UB<Neither, Neither>", False, False, False, False),
}
# element classes: (type, Send, Sync, Clone)
ELEMS = {
    "ESS": ("u64", True, True, True),
    "ES": ("SendOnly", True, False, True),
    "EY": ("SyncOnly", False, True, True),
    "EN": ("NeitherE", False, False, True),
    "ESS_noclone": ("NoClone", True, True, False),
}

PRELUDE = r'''
#![allow(dead_code, unused_imports, non_camel_case_types)]
use any_vec::*;
use any_vec::any_value::*;
use any_vec::element::*;
use any_vec::mem::*;
use any_vec::ops::*;
use any_vec::traits::*;
use core::alloc::Layout;
use core::marker::PhantomData;

// marker payloads
#[derive(Clone, Copy, Default)] pub struct Ok;
#[derive(Clone, Copy, Default)] pub struct NoSend(PhantomData<std::sync::MutexGuard<'static, ()>>); // Sync, !Send
#[derive(Clone, Copy, Default)] pub struct NoSync(PhantomData<core::cell::Cell<()>>);              // Send, !Sync
#[derive(Clone, Copy, Default)] pub struct Neither(PhantomData<*mut ()>);

// user-defined backend whose builder carries B and whose Mem carries M
pub struct UB<B, M>(PhantomData<B>, PhantomData<fn() -> M>);
impl<B, M> Clone for UB<B, M> { fn clone(&self) -> Self { UB(PhantomData, PhantomData) } }
impl<B, M> Default for UB<B, M> { fn default() -> Self { UB(PhantomData, PhantomData) } }
pub struct UMem<M>(Layout, PhantomData<M>);
impl<B, M> MemBuilder for UB<B, M> { type Mem = UMem<M>; fn build(&mut self, l: Layout) -> UMem<M> { UMem(l, PhantomData) } }
impl<M> Mem for UMem<M> {
    fn as_ptr(&self) -> *const u8 { self.0.align() as *const u8 }
    fn as_mut_ptr(&mut self) -> *mut u8 { self.0.align() as *mut u8 }
    fn element_layout(&self) -> Layout { self.0 }
    fn size(&self) -> usize { 0 }
}

// replacement iterator for splice that carries a marker (an owned part of the Splice handle)
pub struct RIter<K>(PhantomData<K>);
impl<K> Iterator for RIter<K> { type Item = AnyValueWrapper<u64>; fn next(&mut self) -> Option<Self::Item> { None } }
impl<K> ExactSizeIterator for RIter<K> {}

// element classes
#[derive(Clone)] pub struct SendOnly(core::cell::Cell<u64>);
#[derive(Clone)] pub struct SyncOnly(u64, PhantomData<std::sync::MutexGuard<'static, ()>>);
#[derive(Clone)] pub struct NeitherE(u64, PhantomData<*mut ()>);
pub struct NoClone(u64);

macro_rules! has {
    ($t:ty : $($tr:tt)+) => {{
        trait No { const V: bool = false; }
        impl<T: ?Sized> No for T {}
        struct W<T: ?Sized>(PhantomData<T>);
        #[allow(dead_code)]
        impl<T: ?Sized + $($tr)+> W<T> { const V: bool = true; }
        <W<$t>>::V
    }};
}
macro_rules! row {
    ($id:expr, $t:ty) => {
        println!("{}\t{}\t{}\t{}", $id, has!($t: Send), has!($t: Sync), has!($t: Clone));
    };
}
'''


def gen_table_program():
    lines = [PRELUDE, "fn main() {"]
    rows = []

    def row(rid, ty):
        lines.append(f'    row!("{rid}", {ty});')
        rows.append(rid)

    for tn, (tr, *_r) in TRAITS.items():
        for bn, (be, *_b) in BACKENDS.items():
            p = f"{tn}|{bn}"
            row(f"vec|{p}", f"AnyVec<{tr}, {be}>")
            row(f"ElementRef|{p}", f"ElementRef<'static, {tr}, {be}>")
            row(f"ElementMut|{p}", f"ElementMut<'static, {tr}, {be}>")
            row(f"Element|{p}", f"Element<'static, {tr}, {be}>")
            row(f"IterRef|{p}", f"IterRef<'static, {tr}, {be}>")
            row(f"IterMut|{p}", f"IterMut<'static, {tr}, {be}>")
            row(f"Pop|{p}", f"Pop<'static, {tr}, {be}>")
            row(f"Remove|{p}", f"Remove<'static, {tr}, {be}>")
            row(f"SwapRemove|{p}", f"SwapRemove<'static, {tr}, {be}>")
            row(f"Drain|{p}", f"Drain<'static, {tr}, {be}>")
            row(f"Splice|{p}", f"Splice<'static, {tr}, {be}, std::vec::IntoIter<AnyValueWrapper<u64>>>")
            row(f"RefToElement|{p}", f"&'static Element<'static, {tr}, {be}>")
            row(f"SpliceOwningNoSend|{p}", f"Splice<'static, {tr}, {be}, RIter<NoSend>>")
            row(f"SpliceOwningNoSync|{p}", f"Splice<'static, {tr}, {be}, RIter<NoSync>>")
            for h in ("Element", "Pop", "Remove", "SwapRemove"):
                lines.append(f'    println!("lazy-cloneable|{h}|{p}\\t{{}}", has!({h}<\'static, {tr}, {be}>: AnyValueCloneable));')
            if TRAITS[tn][3]:
                row(f"LazyCloneOfElement|{p}", f"LazyClone<'static, Element<'static, {tr}, {be}>>")
                row(f"LazyCloneOfPop|{p}", f"LazyClone<'static, Pop<'static, {tr}, {be}>>")
    for en, (et, *_e) in ELEMS.items():
        for bn, (be, *_b) in BACKENDS.items():
            p = f"{en}|{bn}"
            row(f"AnyVecRef|{p}", f"AnyVecRef<'static, {et}, {be}>")
            row(f"AnyVecMut|{p}", f"AnyVecMut<'static, {et}, {be}>")
            row(f"AnyVecTyped|{p}", f"AnyVecTyped<'static, {et}, {be}>")
    for bn in ("Heap", "Empty"):
        row(f"RawParts|{bn}", f"RawParts<{BACKENDS[bn][0]}>")
    # SatisfyTraits truth table
    for en, (et, *_e) in ELEMS.items():
        for tn, (tr, *_r) in TRAITS.items():
            lines.append(f'    println!("satisfy|{en}|{tn}\\t{{}}", has!({et}: SatisfyTraits<{tr}>));')
    for bn, (be, *_b) in BACKENDS.items():
        lines.append(f'    println!("resizable|{bn}\\t{{}}", has!(<{be} as MemBuilder>::Mem: MemResizable));')
        lines.append(f'    println!("sizeable|{bn}\\t{{}}", has!({be}: MemBuilderSizeable));')
        lines.append(f'    println!("rawparts|{bn}\\t{{}}", has!(<{be} as MemBuilder>::Mem: MemRawParts));')
    lines.append("}")
    return "\n".join(lines), rows


def check_table(table, viols, seed, counters):
    """Apply the oracle formulas. table: id -> (send, sync, clone)."""
    def v(kind, sig, detail, desc):
        viols.append(dict(kind=kind, sig=sig, detail=detail, desc=desc, cfg="", family="trait-table", ordinal=0, seed=seed))
    cells = 0
    for tn, (_tr, tsend, tsync, tclone) in TRAITS.items():
        for bn, (_be, bs, by, ms, my) in BACKENDS.items():
            p = f"{tn}|{bn}"
            vs, vy, vc = table[f"vec|{p}"]
            want_s, want_y = tsend and bs and ms, tsync and by and my
            cells += 3
            if vs != want_s:
                v("vec-autotrait", f"vec-send:{tn}:{bn}", f"AnyVec<{tn},{bn}>: Send is {vs}; constraint set x backend give {want_s}", f"vec|{p}")
            if vy != want_y:
                v("vec-autotrait", f"vec-sync:{tn}:{bn}", f"AnyVec<{tn},{bn}>: Sync is {vy}; constraint set x backend give {want_y}", f"vec|{p}")
            if vc != tclone:
                v("vec-autotrait", f"vec-clone:{tn}:{bn}", f"AnyVec<{tn},{bn}>: Clone is {vc}; Cloneable in the constraint set is {tclone}", f"vec|{p}")
            # shared handles: sendable/shareable only when &AnyVec is (i.e. AnyVec: Sync)
            shared = ["ElementRef", "IterRef", "RefToElement"] + (["LazyCloneOfElement", "LazyCloneOfPop"] if tclone else [])
            for h in shared:
                hs, hy, _ = table[f"{h}|{p}"]
                cells += 2
                if hs and not vy:
                    v("handle-autotrait", f"shared-send:{h}:{tn}", f"{h}<{tn},{bn}> is Send although a shared reference to the vector is not (AnyVec: Sync is {vy})", f"{h}|{p}")
                if hy and not vy:
                    v("handle-autotrait", f"shared-sync:{h}:{tn}", f"{h}<{tn},{bn}> is Sync although a shared reference to the vector is not (AnyVec: Sync is {vy})", f"{h}|{p}")
            # exclusive handles: only when &mut AnyVec is (Send <=> AnyVec: Send, Sync <=> AnyVec: Sync)
            for h in ["ElementMut", "IterMut", "Element", "Pop", "Remove", "SwapRemove", "Drain", "Splice"]:
                hs, hy, _ = table[f"{h}|{p}"]
                cells += 2
                if hs and not vs:
                    v("handle-autotrait", f"excl-send:{h}:{tn}", f"{h}<{tn},{bn}> is Send although an exclusive reference to the vector is not (AnyVec: Send is {vs})", f"{h}|{p}")
                if hy and not vy:
                    v("handle-autotrait", f"excl-sync:{h}:{tn}", f"{h}<{tn},{bn}> is Sync although an exclusive reference to the vector is not (AnyVec: Sync is {vy})", f"{h}|{p}")
            # a handle owns what it was given: the replacement iterator inside a Splice
            ns, _, _ = table[f"SpliceOwningNoSend|{p}"]
            _, ny, _ = table[f"SpliceOwningNoSync|{p}"]
            cells += 2
            if ns:
                v("handle-autotrait", f"owned-send:Splice:{tn}", f"Splice<{tn},{bn}, I> is Send although the replacement iterator it owns is not", f"SpliceOwningNoSend|{p}")
            if ny:
                v("handle-autotrait", f"owned-sync:Splice:{tn}", f"Splice<{tn},{bn}, I> is Sync although the replacement iterator it owns is not", f"SpliceOwningNoSync|{p}")
            # lazy clones of owned handles exist only with Cloneable
            for h in ("Element", "Pop", "Remove", "SwapRemove"):
                got = table[f"lazy-cloneable|{h}|{p}"]
                cells += 1
                if got != tclone:
                    v("handle-clone", f"lazy-cloneable:{h}:{tn}", f"{h}<{tn},{bn}>: AnyValueCloneable is {got}; Cloneable in the constraint set is {tclone}", f"lazy-cloneable|{h}|{p}")
    for en, (_et, es, ey, _ec) in ELEMS.items():
        for bn, (_be, bs, by, ms, my) in BACKENDS.items():
            p = f"{en}|{bn}"
            back_s, back_y = bs and ms, by and my
            rs, ry, _ = table[f"AnyVecRef|{p}"]
            ms_, my_, _ = table[f"AnyVecMut|{p}"]
            cells += 4
            # &[T]: Send <=> T: Sync ; &[T]: Sync <=> T: Sync ; &mut [T]: Send <=> T: Send ; &mut [T]: Sync <=> T: Sync
            if rs and not (ey and back_y):
                v("view-autotrait", f"typed-ref-send:{en}", f"AnyVecRef<{en},{bn}> is Send although &[T] x backend is not (T: Sync={ey}, backend Sync={back_y})", f"AnyVecRef|{p}")
            if ry and not (ey and back_y):
                v("view-autotrait", f"typed-ref-sync:{en}", f"AnyVecRef<{en},{bn}> is Sync although &[T] x backend is not (T: Sync={ey}, backend Sync={back_y})", f"AnyVecRef|{p}")
            if ms_ and not (es and back_s):
                v("view-autotrait", f"typed-mut-send:{en}", f"AnyVecMut<{en},{bn}> is Send although &mut [T] x backend is not (T: Send={es}, backend Send={back_s})", f"AnyVecMut|{p}")
            if my_ and not (ey and back_y):
                v("view-autotrait", f"typed-mut-sync:{en}", f"AnyVecMut<{en},{bn}> is Sync although &mut [T] x backend is not (T: Sync={ey}, backend Sync={back_y})", f"AnyVecMut|{p}")
    for en, (_et, es, ey, ec) in ELEMS.items():
        for tn, (_tr, tsend, tsync, tclone) in TRAITS.items():
            want = (es or not tsend) and (ey or not tsync) and (ec or not tclone)
            got = table[f"satisfy|{en}|{tn}"]
            cells += 1
            if got != want:
                v("satisfy", f"satisfy:{en}:{tn}", f"{en}: SatisfyTraits<{tn}> is {got}; the element has Send={es} Sync={ey} Clone={ec}", f"satisfy|{en}|{tn}")
    for bn in BACKENDS:
        want_res = bn == "Heap"
        want_raw = bn in ("Heap", "Empty")
        cells += 3
        if table[f"resizable|{bn}"] != want_res or table[f"sizeable|{bn}"] != want_res:
            v("capability", f"capability:resizable:{bn}", f"{bn}: MemResizable/MemBuilderSizeable = {table[f'resizable|{bn}']}/{table[f'sizeable|{bn}']} expected {want_res}", bn)
        if table[f"rawparts|{bn}"] != want_raw:
            v("capability", f"capability:rawparts:{bn}", f"{bn}: MemRawParts = {table[f'rawparts|{bn}']} expected {want_raw}", bn)
    counters["trait_table_cells"] = cells


PROBE_PRELUDE = PRELUDE.replace("macro_rules! row", "macro_rules! _row") + "\nuse any_vec::any_value::AnyValueWrapper as W;\n"


def gen_probes():
    """(id, body, expect_error)"""
    out = []
    # 1. constructor x constraint set x element class
    for en, (et, es, ey, ec) in ELEMS.items():
        for tn, (tr, tsend, tsync, tclone) in TRAITS.items():
            ok = (es or not tsend) and (ey or not tsync) and (ec or not tclone)
            for ctor, expr in (("new", f"AnyVec::<{tr}, Heap>::new::<{et}>()"), ("new_in", f"AnyVec::<{tr}, Stack<64>>::new_in::<{et}>(Stack::<64>)"),
                               ("with_capacity", f"AnyVec::<{tr}, Heap>::with_capacity::<{et}>(4)"), ("with_capacity_in", f"AnyVec::<{tr}, Heap>::with_capacity_in::<{et}>(4, Heap)")):
                out.append((f"ctor|{ctor}|{tn}|{en}", f"    let v = {expr};\n    let _ = v.len();", not ok))
    # 2. clone / lazy_clone / element_clone only with Cloneable
    for tn, (tr, _s, _y, tclone) in TRAITS.items():
        out.append((f"clone|{tn}", f"    let v: AnyVec<{tr}> = AnyVec::new::<u64>();\n    let c = v.clone();\n    let _ = c.len();", not tclone))
        out.append((f"lazy_clone|{tn}", f"    let mut v: AnyVec<{tr}> = AnyVec::new::<u64>();\n    v.push(W::new(1u64));\n    let e = v.at(0);\n    let l = e.lazy_clone();\n    let _ = l.size();", not tclone))
        out.append((f"lazy_clone_handle|{tn}", f"    let mut v: AnyVec<{tr}> = AnyVec::new::<u64>();\n    v.push(W::new(1u64));\n    let h = v.pop().unwrap();\n    let l = h.lazy_clone();\n    let _ = l.size();", not tclone))
        out.append((f"element_clone|{tn}", f"    let v: AnyVec<{tr}> = AnyVec::new::<u64>();\n    let _f = v.element_clone();", not tclone))
    # 3. capacity management only on resizable backends
    for bn, (be, *_b) in BACKENDS.items():
        res = bn == "Heap"
        mk = f"AnyVec::<dyn any_vec::traits::None, {be}>::new_in::<u64>(Default::default())"
        for m, call in (("reserve", "v.reserve(1)"), ("reserve_exact", "v.reserve_exact(1)"), ("shrink_to_fit", "v.shrink_to_fit()"), ("shrink_to", "v.shrink_to(0)")):
            out.append((f"cap|{m}|{bn}", f"    let mut v = {mk};\n    {call};", not res))
            out.append((f"cap|typed.{m}|{bn}", f"    let mut v = {mk};\n    let mut t = v.downcast_mut::<u64>().unwrap();\n    t.{call[2:]};", not res))
        out.append((f"cap|with_capacity|{bn}", f"    let v = AnyVec::<dyn any_vec::traits::None, {be}>::with_capacity_in::<u64>(2, Default::default());\n    let _ = v.len();", not res))
        raw = bn in ("Heap", "Empty")
        out.append((f"cap|into_raw_parts|{bn}", f"    let v = {mk};\n    let p = v.into_raw_parts();\n    let _ = p.len;", not raw))
    # 4. sending / sharing what must not be
    for tn, (tr, tsend, tsync, _c) in TRAITS.items():
        out.append((f"spawn_move_vec|{tn}", f"    let v: AnyVec<{tr}> = AnyVec::new::<u64>();\n    std::thread::spawn(move || {{ let _ = v.len(); }});", not tsend))
        out.append((f"scope_share_vec|{tn}", f"    let v: AnyVec<{tr}> = AnyVec::new::<u64>();\n    std::thread::scope(|s| {{ s.spawn(|| {{ let _ = v.len(); }}); }});", not tsync))
        out.append((f"scope_send_elementref|{tn}", f"    let mut v: AnyVec<{tr}> = AnyVec::new::<u64>();\n    v.push(W::new(1u64));\n    let e = v.at(0);\n    std::thread::scope(|s| {{ s.spawn(move || {{ let _ = e.size(); }}); }});", (True if not tsync else None)))
        out.append((f"scope_send_iter|{tn}", f"    let v: AnyVec<{tr}> = AnyVec::new::<u64>();\n    let it = v.iter();\n    std::thread::scope(|s| {{ s.spawn(move || {{ let _ = it.len(); }}); }});", (True if not tsync else None)))
        out.append((f"scope_send_elementmut|{tn}", f"    let mut v: AnyVec<{tr}> = AnyVec::new::<u64>();\n    v.push(W::new(1u64));\n    let e = v.at_mut(0);\n    std::thread::scope(|s| {{ s.spawn(move || {{ let _ = e.size(); }}); }});", (True if not tsend else None)))
        out.append((f"scope_send_pop|{tn}", f"    let mut v: AnyVec<{tr}> = AnyVec::new::<u64>();\n    v.push(W::new(1u64));\n    let h = v.pop().unwrap();\n    std::thread::scope(|s| {{ s.spawn(move || {{ drop(h); }}); }});", (True if not tsend else None)))
        out.append((f"scope_send_drain|{tn}", f"    let mut v: AnyVec<{tr}> = AnyVec::new::<u64>();\n    let d = v.drain(..);\n    std::thread::scope(|s| {{ s.spawn(move || {{ drop(d); }}); }});", (True if not tsend else None)))
    # 5. iterators handed out by the typed view (opaque `impl Iterator` types: auto traits leak through them)
    for en, (et, es, ey, _ec) in ELEMS.items():
        mk = f"    let mut v: AnyVec<dyn any_vec::traits::None, Heap> = AnyVec::new::<{et}>();\n    let mut t = v.downcast_mut::<{et}>().unwrap();\n"
        out.append((f"scope_send_typed_drain|{en}", mk + "    let d = t.drain(..);\n    std::thread::scope(|s| { s.spawn(move || { drop(d); }); });", (True if not es else None)))
        out.append((f"scope_send_typed_splice|{en}", mk + f"    let d = t.splice(.., Vec::<{et}>::new());\n    std::thread::scope(|s| {{ s.spawn(move || {{ drop(d); }}); }});", (True if not es else None)))
        out.append((f"scope_send_typed_iter_mut|{en}", mk + "    let d = t.iter_mut();\n    std::thread::scope(|s| { s.spawn(move || { drop(d); }); });", (True if not es else None)))
        out.append((f"scope_send_typed_iter|{en}", mk + "    let d = t.iter();\n    std::thread::scope(|s| { s.spawn(move || { drop(d); }); });", (True if not ey else None)))
        out.append((f"scope_send_typed_slice|{en}", mk + "    let d = t.as_slice();\n    std::thread::scope(|s| { s.spawn(move || { let _ = d.len(); }); });", (True if not ey else None)))
        out.append((f"scope_send_anyvecmut|{en}", mk + "    std::thread::scope(|s| { s.spawn(move || { let _ = t.len(); }); });", (True if not es else None)))
    # 6. the same handles over backends whose builder or Mem is thread-bound (the typed range iterators read the Mem and rewrite
    #    the vector on drop: they must not cross threads when an exclusive reference to the vector could not)
    for bn, (be, bs, by, ms, my) in BACKENDS.items():
        back_send = bs and ms
        mk = f"    let mut v: AnyVec<dyn Send + Sync, {be}> = AnyVec::new_in::<u64>(Default::default());\n    let mut t = v.downcast_mut::<u64>().unwrap();\n"
        out.append((f"scope_send_typed_drain_backend|{bn}", mk + "    let d = t.drain(..);\n    std::thread::scope(|s| { s.spawn(move || { drop(d); }); });", (True if not back_send else None)))
        out.append((f"scope_send_typed_splice_backend|{bn}", mk + "    let d = t.splice(.., Vec::<u64>::new());\n    std::thread::scope(|s| { s.spawn(move || { drop(d); }); });", (True if not back_send else None)))
        out.append((f"scope_send_anyvecmut_backend|{bn}", mk + "    std::thread::scope(|s| { s.spawn(move || { let _ = t.len(); }); });", (True if not back_send else None)))
        mk2 = f"    let mut v: AnyVec<dyn Send + Sync, {be}> = AnyVec::new_in::<u64>(Default::default());\n"
        out.append((f"scope_send_drain_backend|{bn}", mk2 + "    let d = v.drain(..);\n    std::thread::scope(|s| { s.spawn(move || { drop(d); }); });", (True if not back_send else None)))
        out.append((f"scope_send_splice_backend|{bn}", mk2 + "    let d = v.splice(.., Vec::<W<u64>>::new());\n    std::thread::scope(|s| { s.spawn(move || { drop(d); }); });", (True if not back_send else None)))
        out.append((f"scope_share_typed_ref_backend|{bn}", mk2 + "    let t = v.downcast_ref::<u64>().unwrap();\n    std::thread::scope(|s| { s.spawn(move || { let _ = t.len(); }); });", (True if not (by and my) else None)))
    return out


THREADS_SRC = r'''
// Executions of what the trait table admits: real cross-thread use under a data-race detector.
use any_vec::any_value::{AnyValue, AnyValueCloneable, AnyValueMut, AnyValueTypeless, AnyValueWrapper};
use any_vec::traits::*;
use any_vec::AnyVec;
use std::sync::mpsc;

type V = AnyVec<dyn Cloneable + Send + Sync>;

fn fill(n: u64) -> V {
    let mut v: V = AnyVec::new::<String>();
    for i in 0..n {
        v.push(AnyValueWrapper::new(format!("s{i}")));
    }
    v
}

fn main() {
    let mut events = 0u64;
    // 1. vectors moved through channels, mutated on the other side, sent back
    let (tx, rx) = mpsc::channel::<V>();
    let (tx2, rx2) = mpsc::channel::<V>();
    let h = std::thread::spawn(move || {
        let mut n = 0;
        for mut v in rx {
            v.push(AnyValueWrapper::new(String::from("remote")));
            let e = v.swap_remove(0);
            drop(e);
            n += 1;
            tx2.send(v).unwrap();
        }
        n
    });
    for k in 1..4 {
        tx.send(fill(k)).unwrap();
    }
    drop(tx);
    for v in rx2 {
        assert!(v.downcast_ref::<String>().unwrap().as_slice().iter().any(|s| s == "remote"));
        events += 1;
    }
    events += h.join().unwrap();
    // 2. one vector shared by concurrent readers; each lazily clones elements into its own vector
    let shared = fill(4);
    let outs: Vec<V> = std::thread::scope(|s| {
        let hs: Vec<_> = (0..3usize)
            .map(|t| {
                let shared = &shared;
                s.spawn(move || {
                    let mut mine: V = shared.clone_empty();
                    for e in shared.iter() {
                        assert_eq!(e.value_typeid(), std::any::TypeId::of::<String>());
                        mine.push(e.lazy_clone());
                    }
                    let r = shared.get(t).unwrap();
                    mine.insert(0, r.lazy_clone());
                    let typed = shared.downcast_ref::<String>().unwrap();
                    assert_eq!(typed.len(), 4);
                    let c = shared.clone();
                    assert_eq!(c.len(), 4);
                    mine
                })
            })
            .collect();
        hs.into_iter().map(|h| h.join().unwrap()).collect()
    });
    for o in &outs {
        assert_eq!(o.len(), 5);
        events += 1;
    }
    // 2b. vectors that own no allocation (fresh, empty clone, emptied and shrunk) shared by concurrent readers
    let fresh: V = AnyVec::new::<String>();
    let empty_clone = shared.clone_empty();
    let mut shrunk = fill(3);
    shrunk.clear();
    shrunk.shrink_to_fit();
    std::thread::scope(|s| {
        for _ in 0..3 {
            let (a, b, c) = (&fresh, &empty_clone, &shrunk);
            s.spawn(move || {
                for v in [a, b, c] {
                    assert_eq!(v.as_bytes().len(), 0);
                    assert_eq!(v.len(), 0);
                    assert_eq!(v.capacity(), 0);
                    assert!(v.get(0).is_none());
                    assert_eq!(v.iter().len(), 0);
                    assert_eq!(v.downcast_ref::<String>().unwrap().as_slice().len(), 0);
                    assert!(v.downcast_ref::<String>().unwrap().as_ptr() as usize % std::mem::align_of::<String>() == 0);
                    let c = v.clone();
                    assert_eq!(c.len(), 0);
                    let e = v.clone_empty();
                    assert_eq!(e.element_typeid(), v.element_typeid());
                    assert_eq!(e.element_layout(), v.element_layout());
                }
            });
        }
    });
    events += 3;
    // 2c. shared element references and iterators cloned and used from several threads
    std::thread::scope(|s| {
        let r = shared.at(1);
        let it = shared.iter();
        for _ in 0..2 {
            let r2 = r.clone();
            let it2 = it.clone();
            s.spawn(move || {
                assert_eq!(r2.downcast_ref::<String>().unwrap(), "s1");
                assert_eq!(r2.as_bytes().len(), std::mem::size_of::<String>());
                let n = it2.map(|e| e.downcast_ref::<String>().unwrap().len()).sum::<usize>();
                assert_eq!(n, 8);
                let l = r2.lazy_clone();
                assert_eq!(l.downcast::<String>().unwrap(), "s1");
            });
        }
    });
    events += 2;
    // 3. exclusive handles sent to another thread inside a scope
    let mut v = fill(5);
    std::thread::scope(|s| {
        let mut e = v.at_mut(1);
        s.spawn(move || {
            e.downcast_mut::<String>().unwrap().push('!');
        });
    });
    std::thread::scope(|s| {
        let h = v.remove(0);
        s.spawn(move || {
            assert_eq!(h.downcast::<String>().unwrap(), "s0");
        });
    });
    std::thread::scope(|s| {
        let d = v.drain(1..3);
        s.spawn(move || {
            let got: Vec<String> = d.map(|e| e.downcast::<String>().unwrap()).collect();
            assert_eq!(got.len(), 2);
        });
    });
    std::thread::scope(|s| {
        let it = v.iter_mut();
        s.spawn(move || {
            for mut e in it {
                e.downcast_mut::<String>().unwrap().push('?');
            }
        });
    });
    // typed views
    std::thread::scope(|s| {
        let r = v.downcast_ref::<String>().unwrap();
        let r2 = r.clone();
        s.spawn(move || assert_eq!(r.len(), 2));
        s.spawn(move || assert_eq!(r2.as_slice().len(), 2));
    });
    std::thread::scope(|s| {
        let mut m = v.downcast_mut::<String>().unwrap();
        s.spawn(move || m.push(String::from("typed")));
    });
    assert_eq!(v.downcast_ref::<String>().unwrap().as_slice(), &["s1!?".to_string(), "s4?".to_string(), "typed".to_string()]);
    events += 6;
    println!("EVENTS {events}");
}
'''


def run(prop, tier, seed, root):
    t0 = time.time()
    out = dict(evaluations=0, distinct_nontrivial=0, samples=[], counters={}, violations=[], inconclusive=None)
    viols = out["violations"]
    # --- 1. trait table printed by a running program
    src, rows = gen_table_program()
    d = common.write_crate("c15_table", src)
    p = subprocess.run(["cargo", "run", "--offline", "--quiet", "--manifest-path", os.path.join(d, "Cargo.toml"), "--target-dir", os.path.join(common.TARGET, "probes-c15")],
                       env=common.env_base(), stdout=subprocess.PIPE, stderr=subprocess.PIPE, text=True, cwd=d)
    if p.returncode != 0:
        out["inconclusive"] = "trait-table program did not build/run: " + p.stderr[-1500:]
        return out
    table = {}
    for line in p.stdout.splitlines():
        parts = line.split("\t")
        if len(parts) == 4:
            table[parts[0]] = tuple(x == "true" for x in parts[1:])
        elif len(parts) == 2:
            table[parts[0]] = parts[1] == "true"
    out["counters"]["trait_table_rows"] = len(table)
    check_table(table, viols, seed, out["counters"])
    out["evaluations"] += out["counters"]["trait_table_cells"]
    out["distinct_nontrivial"] += len(table)
    for k in ("vec|ClSend|Heap", "ElementRef|Send|Heap", "AnyVecRef|ES|Heap", "Pop|Sync|M_nosync", "satisfy|ES|ClSync"):
        out["samples"].append(f"{k} -> {table.get(k)}")
    # --- 2. hostile programs, one batch, each with its control
    b = common.Batch("c15_probes", PROBE_PRELUDE)
    probes = gen_probes()
    for (pid, body, exp) in probes:
        b.add(pid, body, exp)
    rc, per, unattributed, err = b.build()
    rejected = accepted = 0
    if unattributed:
        out["inconclusive"] = "probe batch produced errors outside every probe: " + "; ".join(x["message"] for x in unattributed[:3])
    for (pid, body, exp) in probes:
        errs = per[pid]
        if exp is None:
            # 'only when': being stricter than necessary is permitted, so this direction is only counted
            if errs:
                rejected += 1
            else:
                accepted += 1
            continue
        if exp and not errs:
            viols.append(dict(kind="admitted", sig=f"admitted:{pid.split('|')[0]}:{'|'.join(pid.split('|')[1:])}", detail="a program that must be rejected builds: " + body.strip().replace("\n", " "),
                              desc=pid, cfg="", family="hostile-programs", ordinal=0, seed=seed))
        if not exp and errs:
            viols.append(dict(kind="rejected-control", sig=f"rejected-control:{pid}", detail="a control program does not build: " + errs[0]["message"][:300],
                              desc=pid, cfg="", family="hostile-programs", ordinal=0, seed=seed))
        if errs:
            rejected += 1
        else:
            accepted += 1
    out["counters"]["hostile_programs"] = len(probes)
    out["counters"]["hostile_rejected"] = rejected
    out["counters"]["controls_accepted"] = accepted
    out["evaluations"] += len(probes)
    out["distinct_nontrivial"] += len(probes)
    out["samples"].append(f"probe {probes[0][0]}: {probes[0][1].strip()} -> expect_error={probes[0][2]}")
    # --- 3. execute what is admitted under Miri's data-race detector
    d = common.write_crate("c15_threads", THREADS_SRC)
    seeds = "0..16" if tier == "thorough" else "0..4"
    env = common.env_base({"RUSTFLAGS": "--cfg any_vec_verif", "MIRIFLAGS": f"-Zmiri-many-seeds={seeds} -Zmiri-disable-isolation"})
    p = subprocess.run(["cargo", "+nightly", "miri", "run", "--quiet", "--manifest-path", os.path.join(d, "Cargo.toml"), "--target-dir", os.path.join(common.TARGET, "probes-c15-miri")],
                       env=env, stdout=subprocess.PIPE, stderr=subprocess.PIPE, text=True, cwd=d, timeout=3000)
    runs = p.stdout.count("EVENTS")
    out["counters"]["miri_thread_schedules"] = runs
    out["evaluations"] += runs
    if "Undefined Behavior" in p.stderr or "Data race" in p.stderr:
        kind = "race" if "ata race" in p.stderr else "tool-memory"
        i = p.stderr.find("error: Undefined Behavior")
        viols.append(dict(kind=kind, sig=f"{kind}:threads-workload", detail=p.stderr[i:i + 1500], desc="c15_threads under Miri", cfg="", family="threads", ordinal=0, seed=seed))
    elif p.returncode != 0 and runs == 0:
        if "error[" in p.stderr:
            viols.append(dict(kind="rejected-control", sig="rejected-control:threads-workload", detail="the admitted cross-thread workload does not build: " + p.stderr[-1200:],
                              desc="c15_threads", cfg="", family="threads", ordinal=0, seed=seed))
        else:
            out["inconclusive"] = "Miri thread workload failed to run: " + p.stderr[-800:]
    elif p.returncode != 0:
        viols.append(dict(kind="rejected-control", sig="workload-failed:threads-workload", detail="the cross-thread workload failed: " + p.stderr[-1200:],
                          desc="c15_threads", cfg="", family="threads", ordinal=0, seed=seed))
    # --- 3b. the same workload natively under ThreadSanitizer (real threads, many repetitions)
    tdir = os.path.join(common.TARGET, "probes-c15-tsan")
    env = common.env_base({"RUSTFLAGS": "-Zsanitizer=thread"})
    b = subprocess.run(["cargo", "+nightly", "build", "--offline", "--quiet", "-Zbuild-std", "--target", "x86_64-unknown-linux-gnu", "--manifest-path", os.path.join(d, "Cargo.toml"), "--target-dir", tdir],
                       env=env, stdout=subprocess.PIPE, stderr=subprocess.PIPE, text=True, cwd=d, timeout=1800)
    exe = os.path.join(tdir, "x86_64-unknown-linux-gnu", "debug", "c15_threads")
    if b.returncode == 0 and os.path.exists(exe):
        reps = 60 if tier == "thorough" else 12
        tsan_runs = 0
        for i in range(reps):
            r = subprocess.run([exe], env=common.env_base({"TSAN_OPTIONS": "halt_on_error=1 exitcode=66"}), stdout=subprocess.PIPE, stderr=subprocess.PIPE, text=True, timeout=300)
            if "EVENTS" in r.stdout:
                tsan_runs += 1
            if "ThreadSanitizer" in r.stderr:
                i0 = r.stderr.find("WARNING: ThreadSanitizer")
                viols.append(dict(kind="race", sig="race:threads-workload-tsan", detail=r.stderr[i0:i0 + 1500], desc="c15_threads under ThreadSanitizer", cfg="", family="threads", ordinal=i, seed=seed))
                break
            if r.returncode != 0:
                viols.append(dict(kind="rejected-control", sig="workload-failed:threads-workload-tsan", detail="the cross-thread workload failed natively: " + r.stderr[-800:], desc="c15_threads", cfg="", family="threads", ordinal=i, seed=seed))
                break
        out["counters"]["tsan_runs"] = tsan_runs
        out["evaluations"] += tsan_runs
    else:
        out["counters"]["tsan_runs"] = 0
        out.setdefault("notes", []).append("ThreadSanitizer build unavailable: " + b.stderr[-300:])
    out["cfgs"] = [f"{t}|{b}" for t in TRAITS for b in BACKENDS] + [f"{e}|{b}" for e in ELEMS for b in BACKENDS]
    out["opsigs"] = sorted({pid.split("|")[0] for (pid, _b, _e) in probes})
    out["wall_s"] = time.time() - t0
    return out
