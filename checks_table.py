"""Execution modes and per-property check specifications (see DESIGN.md sections 1.8 and 3)."""
import re

CARGO = ["cargo", "build", "--offline", "--quiet"]


def classify_miri(err):
    if "Undefined Behavior" not in err and "memory leaked" not in err and "error:" not in err:
        return None
    if "Data race" in err or "data race" in err:
        return "race"
    if "memory leaked" in err:
        return "tool-leak"
    if re.search(r"(out-of-bounds|dangling|has been freed|use-after|uninitialized|alignment|unaligned|dereferenc)", err):
        return "tool-memory"
    if re.search(r"(Stacked Borrows|Tree Borrows|borrow)", err):
        return "tool-borrow"
    return "tool-memory"


def classify_asan(err):
    if "AddressSanitizer" not in err and "LeakSanitizer" not in err:
        return None
    if "LeakSanitizer" in err or "detected memory leaks" in err:
        return "tool-leak"
    return "tool-memory"


def classify_valgrind(err):
    if "== Invalid " in err or "uninitialised" in err or "Invalid free" in err or "Mismatched free" in err:
        return "tool-memory"
    if "definitely lost" in err:
        return "tool-leak"
    return None


MIRI_RUNNER = ["cargo", "+nightly", "miri", "run", "--quiet", "--manifest-path", "{manifest}", "--target-dir", "{target}", "--"]
MIRI_BUILD = ["cargo", "+nightly", "miri", "run", "--quiet"]
MIRI_BASE = "-Zmiri-disable-isolation -Zmiri-permissive-provenance"

MODES = {
    # Miri on pointer-backed storage (Heap, instrumented backend): Stacked Borrows on
    "miri": dict(build=MIRI_BUILD, build_tail=["--", "configs"], runner=MIRI_RUNNER, target="miri",
                 env={"RUSTFLAGS": "--cfg any_vec_verif", "MIRIFLAGS": MIRI_BASE},
                 hv_args=["--tool", "--mem", "heapguard", "--sb"], classify=classify_miri),
    # Miri on the inline backends: borrow tracking off (DESIGN.md 1.8), bounds/UAF/init/alignment checks stay on
    "miri-stack": dict(build=MIRI_BUILD, build_tail=["--", "configs"], runner=MIRI_RUNNER, target="miri",
                       # leaks are ignored: a fixed-capacity vector legitimately leaks its tail when an operation beyond its capacity panics
                       env={"RUSTFLAGS": "--cfg any_vec_verif", "MIRIFLAGS": MIRI_BASE + " -Zmiri-disable-stacked-borrows -Zmiri-symbolic-alignment-check -Zmiri-ignore-leaks"},
                       hv_args=["--tool", "--mem", "stack"], classify=classify_miri),
    # Miri forced onto the production byte loop of copy_bytes (pointer-free elements only)
    "miri-realcopy": dict(build=MIRI_BUILD, build_tail=["--", "configs"], runner=MIRI_RUNNER, target="miri-realcopy",
                          env={"RUSTFLAGS": "--cfg any_vec_verif --cfg any_vec_verif_realcopy", "MIRIFLAGS": MIRI_BASE},
                          hv_args=["--tool", "--mem", "heapguard", "--pointer-free", "--sb"], classify=classify_miri),
    # AddressSanitizer on the production-flags build (full quick families, harness guard zones off)
    "asan": dict(build=["cargo", "+nightly", "build", "--offline", "--quiet", "--target", "x86_64-unknown-linux-gnu", "--profile", "relflags"],
                 bin="x86_64-unknown-linux-gnu/relflags/hv", env={"RUSTFLAGS": "-Zsanitizer=address -Cforce-frame-pointers=yes"},
                 run_env={"ASAN_OPTIONS": "halt_on_error=1:abort_on_error=0:detect_leaks=1:exitcode=98"}, hv_args=["--tool"], classify=classify_asan, optional=True),
    "asan-noleak": dict(build=["cargo", "+nightly", "build", "--offline", "--quiet", "--target", "x86_64-unknown-linux-gnu", "--profile", "relflags"],
                 bin="x86_64-unknown-linux-gnu/relflags/hv", target="asan", env={"RUSTFLAGS": "-Zsanitizer=address -Cforce-frame-pointers=yes"},
                 run_env={"ASAN_OPTIONS": "halt_on_error=1:abort_on_error=0:detect_leaks=0:exitcode=98"}, hv_args=["--tool"], classify=classify_asan, optional=True),
    # valgrind memcheck on the production-flags binary (sampled)
    "valgrind": dict(build=CARGO + ["--profile", "relflags"], bin="relflags/hv", target="rel",
                     runner=["valgrind", "--quiet", "--error-exitcode=97", "--leak-check=full", "--errors-for-leak-kinds=definite", "{bin}"],
                     hv_args=["--tool", "--sample"], classify=classify_valgrind, setup=False),
    # harness and any_vec built without default features (C19)
    "nodefault": dict(build=CARGO + ["--profile", "relflags", "--no-default-features"], bin="relflags/hv"),
    "valgrind-noleak": dict(build=CARGO + ["--profile", "relflags"], bin="relflags/hv", target="rel",
                     runner=["valgrind", "--quiet", "--error-exitcode=97", "--leak-check=no", "{bin}"],
                     hv_args=["--tool", "--sample"], classify=classify_valgrind, setup=False),
    # leaks are permitted (C06/C07)
    "miri-noleak": dict(build=MIRI_BUILD, build_tail=["--", "configs"], runner=MIRI_RUNNER, target="miri",
                        env={"RUSTFLAGS": "--cfg any_vec_verif", "MIRIFLAGS": MIRI_BASE + " -Zmiri-ignore-leaks"},
                        hv_args=["--tool", "--mem", "heapguard", "--sb"], classify=classify_miri),
    # production semantics: wrapping arithmetic, no debug_assert, the real copy_bytes loop
    "rel": dict(build=CARGO + ["--profile", "relflags"], bin="relflags/hv"),
    # overflow checks, debug_assert, rustc's pointer checks
    "dbg": dict(build=CARGO, bin="debug/hv"),
    # real optimised build (thorough tier)
    "opt": dict(build=CARGO + ["--release"], bin="release/hv", setup=False),
}

BEHAVIOUR_ASSUMPTIONS = [
    "bounded: lengths, indices, replacement lengths and the configuration table listed in coverage; nothing is claimed outside them",
    "the small-scope induction argument assumes behaviour depends on the concrete state only through (len, capacity class, spare dirty/fresh); random long histories do not rely on it",
    "std::vec::Vec is the reference semantics; element identities are carried by the element types' own make/Clone/Drop",
]

CHECKS = {
    "C01": dict(
        level="exploration",
        rule="small-scope exhaustive: every element-wise operation instance (operation x index 0..=len+1 x value-source kind x sink kind x erased/typed path) "
             "from every abstract state (len<=L plus copy_bytes threshold lengths, capacity class, dirty spare) on every configuration, plus seeded random histories "
             "over three vectors; a case is non-trivial when it moved at least one element or was rejected at a boundary index; distinct = distinct case descriptors (hashed)",
        runs=[
            dict(mode="rel"),
            dict(mode="dbg", args=["--sub", "light"]),
            dict(mode="opt", tiers=("thorough",)),
        ],
        floors={"any": {"evaluations": 20000, "rejections": 500}},
        assumptions=BEHAVIOUR_ASSUMPTIONS,
    ),

    "C02": dict(
        level="exploration",
        rule="small-scope exhaustive: drain/splice with every (start,end), every RangeBounds form, invalid ranges around the boundary and at usize::MAX, "
             "every next/next_back choice string (<= range length, plus calls after exhaustion), per-item sinks, replacement lengths 0..=K from every source kind, "
             "erased and typed, from every abstract state on every configuration; plus seeded random range histories; non-trivial = any case (every case removes, "
             "replaces or must be rejected); distinct = distinct case descriptors",
        runs=[dict(mode="rel"), dict(mode="dbg", args=["--sub", "light"]), dict(mode="opt", tiers=("thorough",))],
        floors={"any": {"evaluations": 20000, "rejections": 500}},
        assumptions=BEHAVIOUR_ASSUMPTIONS,
    ),
    "C03": dict(
        level="exploration",
        rule="identity registry fed by the element types' own make/Clone/Drop, balanced against what is reachable through the vectors after every step and after "
             "everything is dropped, over the element / range / clone / lazy families and mixed random histories on three vectors exchanging elements; "
             "by-value multiset accounting for types without drop glue, by-count for zero-sized; non-trivial = case moved, removed, cloned or destroyed an element",
        runs=[dict(mode="rel"), dict(mode="dbg", args=["--sub", "light"]), dict(mode="asan-noleak", args=["--sub", "light"], tiers=("quick",)),
              dict(mode="opt", tiers=("thorough",)), dict(mode="asan-noleak", tiers=("thorough",)), dict(mode="miri-noleak", args=["--quota", "25"], tiers=("thorough",), timeout=7200),
              dict(mode="valgrind-noleak", args=["--quota", "60"], tiers=("thorough",), timeout=7200)],
        floors={"any": {"evaluations": 20000, "drop_events": 10000, "clone_events": 1000}},
        tool_kinds=["tool-memory", "crash"],
        assumptions=BEHAVIOUR_ASSUMPTIONS + ["tool modes ignore leaks: the workloads contain operations that legitimately leak (fixed-capacity overflow panics); leaks are decided by the identity registry, which knows which ids may leak"],
    ),
    "C08": dict(
        level="exploration",
        rule="clone / clone_empty / clone_empty_in(Heap|Guard|Stack|StackN) from every abstract state on every Cloneable configuration, followed by every single "
             "element-wise operation on the original and on the clone; monitors: Vec model of both vectors, Clone-event log (each source id exactly once), storage base "
             "pointers pairwise distinct; plus Clone::clone_from between vectors of 26 element-type pairs (same layout/different type, same type, different "
             "layouts, zero-sized), after which the destination, its clones, its lazy clones and its empty clone must all behave as the source's element type; "
             "non-trivial = every case",
        runs=[dict(mode="rel"), dict(mode="dbg", args=["--sub", "light"]), dict(mode="miri", args=["--quota", "60"], tiers=("thorough",), timeout=7200)],
        floors={"any": {"evaluations": 5000, "clone_events": 5000}},
        assumptions=BEHAVIOUR_ASSUMPTIONS,
    ),
    "C09": dict(
        level="exploration",
        rule="lazy clones of every cloneable source kind (ElementRef, ElementMut, Pop, Remove, SwapRemove, drained Element) x chain depth 1..3 x 0..3 consumptions "
             "(push, insert, splice, downcast, dropped unused) from every state; monitors: Clone/Drop event counts around creation/copy/drop of the lazy clone, "
             "exact Clone-event multiset per consumption, registry balance; non-trivial = every case",
        runs=[dict(mode="rel"), dict(mode="dbg", args=["--sub", "light"]), dict(mode="miri", args=["--quota", "60"], tiers=("thorough",), timeout=7200)],
        floors={"any": {"evaluations": 5000, "clone_events": 5000}},
        assumptions=BEHAVIOUR_ASSUMPTIONS,
    ),
    "C10": dict(
        level="exploration",
        rule="reserve / reserve_exact / shrink_to_fit / shrink_to (erased and typed) with every argument 0..=len+5 and near usize::MAX from every (len, capacity) state on "
             "Heap and the instrumented backend, capacity calls interleaved into random histories, push runs for amortisation; monitors: capacity/base pointer before and "
             "after, backend and allocator event counters, Drop/Clone event counters, Vec model; non-trivial = every case",
        runs=[dict(mode="rel"), dict(mode="dbg", args=["--sub", "light"])],
        floors={"any": {"evaluations": 5000, "capacity_calls_checked": 2000, "reserve_noop_checked": 200}},
        assumptions=BEHAVIOUR_ASSUMPTIONS,
    ),
    "C14": dict(
        level="exploration",
        rule="iter / iter_mut / IntoIterator / typed iter / drain / splice driven by every next/next_back choice string up to the range length plus six alternating "
             "calls after exhaustion, IterRef clones taken at several points; monitors: len() and size_hint() before every step and after the last, yielded identities "
             "against the model (each once, front ascending, back descending), None forever after exhaustion; non-trivial = non-empty range",
        runs=[dict(mode="rel"), dict(mode="dbg", args=["--sub", "light"])],
        floors={"any": {"evaluations": 20000}},
        assumptions=BEHAVIOUR_ASSUMPTIONS,
    ),

    "C07": dict(
        level="exploration",
        rule="mem::forget of the pop/remove/swap_remove handle, of a drain/splice iterator after every (f front, b back) consumption prefix, and of a yielded item, from every state "
             "and sub-range, followed by further operations and drop; monitors: prefix before the affected index unchanged, what follows drawn from the former elements, registry "
             "(no duplicate, no dead element visible, no double destroy), Vec model re-synchronised to the visible contents; non-trivial = every case",
        runs=[dict(mode="rel"), dict(mode="dbg", args=["--sub", "light"]),
              dict(mode="asan-noleak", args=["--sub", "light"], tiers=("thorough",)), dict(mode="miri-noleak", args=["--quota", "60"], tiers=("thorough",), timeout=7200)],
        floors={"any": {"evaluations": 20000}},
        assumptions=BEHAVIOUR_ASSUMPTIONS,
    ),
    "C13": dict(
        level="exploration",
        rule="get/at/get_mut/at_mut and typed accessors at every index 0..=len+1 with handle reports (value_typeid, size, as_bytes address/length) checked; writes and swaps through 15 view/handle kinds "
             "read back through the typed slice, erased get, iter and the byte view after every step; unconsumed removal handles and drained elements inspected/mutated/swapped before every fin; "
             "non-trivial = every case",
        runs=[dict(mode="rel"), dict(mode="dbg", args=["--sub", "light"]), dict(mode="miri", args=["--quota", "60"], tiers=("thorough",), timeout=7200)],
        floors={"any": {"evaluations": 20000}},
        assumptions=BEHAVIOUR_ASSUMPTIONS,
    ),
    "C17": dict(
        level="exploration",
        rule="into_raw_parts/from_raw_parts (1..3 times) from every state on every heap configuration and constraint set, inserted before every element-wise operation and sampled range operations, and inside random histories; "
             "monitors: every RawParts field (and its field-wise clone) against the live vector, Drop/Clone and allocator event counters across the round trip, base pointer/capacity after rebuilding, Vec model afterwards, registry and allocator balance at the end",
        runs=[dict(mode="rel"), dict(mode="dbg", args=["--sub", "light"]), dict(mode="asan", args=["--sub", "light"], tiers=("thorough",)),
              dict(mode="miri", args=["--quota", "40"], tiers=("thorough",), timeout=7200)],
        floors={"any": {"evaluations": 10000, "raw_round_trips_checked": 10000}},
        assumptions=BEHAVIOUR_ASSUMPTIONS,
    ),

    "C05": dict(
        level="exploration",
        rule="the element / range / clone families and mixed random histories run on the instrumented user-defined backend (guard zones, poison fill, relocate on every capacity change, quarantine of released blocks; "
             "growth policies exact / double / slack3) and on the built-in Heap under the instrumented global allocator with the same features; monitors: guard and quarantine scans after every step, element canaries "
             "(uninitialised/stale bytes seen as elements), build/expand/resize/drop lifecycle log; non-trivial = case that moved at least one element or changed capacity",
        runs=[dict(mode="rel"), dict(mode="dbg", args=["--sub", "light"]),
              dict(mode="asan", args=["--sub", "light"], tiers=("quick",)),
              dict(mode="asan", tiers=("thorough",)),
              dict(mode="valgrind", args=["--quota", "60"], tiers=("thorough",), timeout=7200),
              dict(mode="miri", args=["--quota", "3"], tiers=("quick",), timeout=1500),
              dict(mode="miri-realcopy", args=["--quota", "2"], tiers=("quick",), shards=8, timeout=1500),
              dict(mode="miri-stack", args=["--quota", "2"], tiers=("quick",), shards=8, timeout=1500),
              dict(mode="miri", args=["--quota", "40"], tiers=("thorough",), timeout=7200),
              dict(mode="miri-realcopy", args=["--quota", "30"], tiers=("thorough",), timeout=7200),
              dict(mode="miri-stack", args=["--quota", "20"], tiers=("thorough",), timeout=7200)],
        floors={"any": {"evaluations": 20000, "backend_relocations": 10000, "backend_guard_scans": 20000, "realloc(moved)": 1000}},
        tool_kinds=["tool-memory", "crash"],
        assumptions=BEHAVIOUR_ASSUMPTIONS + ["guard zones detect adjacent overruns only; non-adjacent wild writes are left to Miri/ASan modes"],
    ),
    "C11": dict(
        level="exploration",
        rule="element / range / clone / lazy families and random histories on Stack<SIZE> and StackN<N,SIZE> configurations from every state up to capacity (incl. len == capacity-1 and == capacity) with results of length <= cap, == cap and == cap+1; "
             "monitors: Vec model with a capacity bound (push/insert beyond capacity must panic and change nothing), fixed capacity() value, per-thread allocation counter of the instrumented global allocator across every library call; "
             "plus a SIZE/N grid of instantiations for capacity() and construction panics",
        runs=[dict(mode="rel"), dict(mode="dbg", args=["--sub", "light"]), dict(mode="miri-stack", args=["--quota", "2"], tiers=("quick",), timeout=1500),
              dict(mode="miri-stack", args=["--quota", "25"], tiers=("thorough",), timeout=7200)],
        floors={"any": {"evaluations": 20000, "stack_ops_watched": 20000, "rejections": 1000}},
        assumptions=BEHAVIOUR_ASSUMPTIONS,
    ),
    "C18": dict(
        level="exploration",
        rule="element / range / capacity / clone families and random histories on Heap with non-allocating elements of every layout under the instrumented global allocator: after every step the number of live attributed blocks must equal the "
             "number of vectors with capacity x size > 0, each vector's storage must lie inside one live block that is large and aligned enough, every realloc/dealloc must present the allocation's layout, no invalid layout may reach the allocator, nothing may stay allocated at the end; "
             "capacity requests at the overflow boundaries in separate probes",
        runs=[dict(mode="rel"), dict(mode="dbg", args=["--sub", "light"])],
        floors={"any": {"evaluations": 20000, "heap_shape_checks": 20000, "alloc": 5000, "dealloc": 5000}},
        assumptions=BEHAVIOUR_ASSUMPTIONS,
    ),

    "C06": dict(
        level="fault_enumeration",
        rule="for every (state, operation instance) of the element / range / clone / lazy families up to the bound: one fault-free run counts the user-code invocations N inside the operation (element Drop, element Clone, replacement-iterator next), "
             "then for each k=1..N the k-th invocation panics (caught by catch_unwind); plus replacement iterators whose len() is off by -2..=+2; after each fault: registry (no double destroy, no dead or duplicated element visible), canaries, guard/quarantine scans, "
             "and a follow-up sequence (push, insert, iterate, pop, remove, clone, clear, drop) against a model re-synchronised to the visible contents; leaks are counted, not flagged; non-trivial = the injected fault actually fired; distinct = distinct (case, k) descriptors",
        runs=[dict(mode="rel"), dict(mode="dbg", args=["--sub", "light"]),
              dict(mode="asan-noleak", args=["--sub", "light"], tiers=("thorough",)), dict(mode="miri-noleak", args=["--quota", "25"], tiers=("thorough",), timeout=7200)],
        floors={"any": {"evaluations": 20000, "faults_injected": 20000, "faults_in_drop": 2000, "faults_in_clone": 500, "faults_in_repl-next": 500, "lying_iterators": 1000}},
        assumptions=BEHAVIOUR_ASSUMPTIONS + ["exactly one injected panic per execution (a second panic during unwinding aborts by language rule)"],
    ),

    "C04": dict(
        level="exploration",
        rule="every ordered pair (vector element type, offered value type) from same-layout families (W8d/W8d2/W8/B8, S16d/S16d2/Q16, P3d/P3, U1d/U1, Z0d/Z0, u64/i64/f64/[u8;8]) incl. each matching pair as control, "
             "x nine value-source kinds x push/insert at every index x splice with the foreign item at every position x five swap pairings x eleven downcast requests, from every state up to the bound; "
             "monitors: panic/no panic, typed snapshot before/after, registry (rejected value destroyed exactly once), Option answers, element_typeid/element_layout; non-trivial = every case",
        runs=[dict(mode="rel", shards=4), dict(mode="dbg", shards=4)],
        floors={"any": {"evaluations": 5000, "rejections": 3000, "accepted_controls": 1000}},
        assumptions=BEHAVIOUR_ASSUMPTIONS,
    ),
    "C12": dict(
        level="exploration",
        rule="every (len, capacity) state up to the bound x every layout (size 0/1/2/3/8/12/16/24/32/64/160, alignment 1..64) x Heap, instrumented backend, Stack<2048>, StackN<8,2048> (+ small odd sizes), the vector written in place at every admissible "
             "offset (step align_of::<AnyVec>) of a 128-aligned arena for the inline backends; monitors: storage pointer modulo alignment (also empty), address/length arithmetic of as_bytes/as_bytes_mut/spare_bytes_mut/spare_capacity_mut/typed slices, "
             "byte equality of the byte view and the typed slice, values written into spare capacity + set_len become the new tail; at a misaligned placement no element is accessed; non-trivial = every case",
        runs=[dict(mode="rel", shards=8), dict(mode="dbg", shards=8, args=["--sub", "light"]),
              dict(mode="miri-stack", args=["--quota", "8"], tiers=("thorough",), timeout=7200)],
        floors={"any": {"evaluations": 10000, "placements_checked": 10000}},
        assumptions=BEHAVIOUR_ASSUMPTIONS,
    ),

    "C19": dict(
        level="exploration",
        rule="the element / range / clone / lazy families, random histories and the SIZE/N grid restricted to Stack/StackN configurations, executed by the harness built against any_vec with and without default features; "
             "monitors: Vec model in both builds, per-configuration digest of every operation/outcome/snapshot compared across the builds, instrumented global allocator (zero library allocations), "
             "crate-dependency list and undefined allocator symbols of the no-default rlib, compile probes (Heap must not exist, Stack control must build); non-trivial as in C01/C02; distinct = descriptors per build",
        runs=[dict(mode="rel", external="ext.ext_c19")],
        floors={"any": {"evaluations": 100000, "configurations_compared": 10, "nodefault:stack_ops_watched": 50000}},
        assumptions=BEHAVIOUR_ASSUMPTIONS + ["'compiles without the alloc crate' is a build-artifact observation (rustc -Zls, nm), complemented by the run-time allocation counter"],
    ),

    "C15": dict(
        level="exploration",
        rule="(1) truth table of Send/Sync/Clone for every public vector/view/handle/iterator type x 8 constraint sets x 9 backends (incl. user backends whose builder or Mem is !Send/!Sync) x 5 element classes, "
             "printed by a running program and checked against the property's formulas (vector: both directions; handles: 'only when' direction); (2) generated hostile one-function programs (constructor x constraint set x element class, "
             "clone/lazy_clone/element_clone without Cloneable, capacity calls and raw parts per backend, sending/sharing vectors and handles across threads), each with its control, built in one batch; "
             "(3) the admitted cross-thread workload executed under Miri's data-race detector over several schedules; evaluations = table cells + programs + schedules; non-trivial = every row/program",
        runs=[dict(mode="rel", external="ext.ext_c15")],
        floors={"any": {"trait_table_cells": 2000, "hostile_programs": 200, "hostile_rejected": 50, "controls_accepted": 50, "miri_thread_schedules": 2}},
        assumptions=["rustc's trait solver decides accept/reject for (1) and (2): the running program only prints what the compiler resolved", "Miri's data-race detector and scheduler explore a few seeds, not all interleavings"],
    ),

    "C16": dict(
        level="exploration",
        rule="systematically generated one-function programs: 34 handle-producing methods (erased and typed) x the conflicting-action classes of the property (mutate / clear / read / second exclusive handle / move / drop the source, escape its scope, "
             "consume a handle twice, mutate through a typed view then reuse an earlier borrow, two simultaneous mutable paths to one element), each with its conflict-free control; conflict programs are built in batches (a program without an error is re-built "
             "alone), controls are built, executed natively and executed under Miri; non-trivial = every program",
        runs=[dict(mode="rel", external="ext.ext_c16")],
        floors={"any": {"conflict_programs": 250, "conflicts_rejected": 150, "controls": 30, "controls_executed_miri": 30}},
        assumptions=["rustc's borrow checker decides accept/reject: a program that does not build has no execution to monitor", "any compile error attributed to the probe counts as 'rejected'; error codes are recorded"],
    ),
}


# Extensions made after the seeded-change rounds (DESIGN.md 7.5); appended to the rule texts above.
RULE_ADDENDA = {
    "C01": "the Clone-event log is compared too (a value supplied as a lazy clone is what Vec::push(x.clone()) holds)",
    "C02": "consumption scripts also use nth/nth_back steps and can finish the iterator through count/last/fold/rfold/step_by(2); the Clone-event log is compared too",
    "C03": "consumption scripts also use nth/nth_back steps and the count/last/fold/rfold/step_by(2) finishers (every skipped or bulk-consumed item must still be destroyed exactly once)",
    "C09": "runs on every Cloneable configuration: element types with and without drop glue (both log their Clone calls)",
    "C14": "scripts mix in nth/nth_back and finish the rest through count/last/fold/rfold/step_by(2) after 0..3 steps from either end",
    "C15": "a Splice owning a !Send / !Sync replacement iterator must never be Send / Sync; AnyValueCloneable of the owning handles (Element, Pop, Remove, SwapRemove) <=> Cloneable",
    "C16": "class shared-path: each of the 20 mutating methods of AnyVec through &AnyVec and each of the 20 of AnyVecTyped through the shared typed view, while an ElementRef is alive",
}
_SCALE = ("scale workloads: ~70 KiB vectors of 1/3/8/12/24/160-byte and zero-sized elements and one 65600-byte element type under the same oracles, "
          "with operations aimed at page-multiple tails, 4K/64K/128K offsets, word-size remainders, bulk clone/clear/drop")
_LARGE = ("large capacity requests: ~300 sizes per element type around every page multiple up to 160 KiB and every power of two up to 4 MiB "
          "(capacity promises, exact shrink results, alignment, allocator layout/guard/leak events)")
for _p in ("C01", "C02", "C03", "C05", "C08", "C12", "C13", "C14", "C18"):
    RULE_ADDENDA[_p] = (RULE_ADDENDA.get(_p, "") + "; " if _p in RULE_ADDENDA else "") + _SCALE
for _p in ("C10", "C05", "C12", "C18"):
    RULE_ADDENDA[_p] = (RULE_ADDENDA.get(_p, "") + "; " if _p in RULE_ADDENDA else "") + _LARGE
RULE_ADDENDA["C14"] += "; search finishers (find/rfind/position/rposition/any/all/for_each/max_by_key/min_by_key); lengths 255..70001 and zero-sized lengths 2^16+3, 2^32+5"
RULE_ADDENDA["C02"] += "; search finishers; far-end / long-range drains and splices at lengths up to 70001 and zero-sized 2^32+5"
RULE_ADDENDA["C06"] = "fault sweep of bulk operations (clear, drop, clone, drains, splices) at lengths 9 and 17 (33 thorough); lying iterators whose len() answers change between calls and constant lies up to +-7"
RULE_ADDENDA["C07"] = "follow-ups include a second leaked handle and appending through splice(len..)"
RULE_ADDENDA["C05"] += "; growth of the vector between two steps of a live typed drain/splice handle (native, ASan, valgrind)"
RULE_ADDENDA["C08"] = RULE_ADDENDA.get("C08", "") 
RULE_ADDENDA["C17"] = "a release with another layout than the allocation (alloc-layout) counts as a symptom"
# observation floors for the workloads added in rounds 5-6 (a workload that silently did not run makes the check inconclusive)
_FLOORS = {
    "C01": {"scale_stages": 40, "overaligned_stack_placements": 50},
    "C02": {"scale_stages": 40, "large_iter_elements": 1000000},
    "C03": {"scale_stages": 40},
    "C04": {"meta_chains": 50},
    "C05": {"scale_stages": 40, "large_capacity_requests": 2000, "live_handle_growths": 50, "prealloc_backend_cases": 50},
    "C08": {"scale_stages": 40, "meta_chains": 50, "prealloc_backend_cases": 50},
    "C10": {"large_capacity_requests": 2000, "amortisation_pushes": 1000000},
    "C11": {"overaligned_stack_placements": 50},
    "C12": {"scale_stages": 40, "large_capacity_requests": 2000, "meta_chains": 50, "overaligned_stack_placements": 50},
    "C13": {"scale_stages": 40},
    "C14": {"scale_stages": 40, "large_iter_elements": 1000000},
    "C18": {"scale_stages": 20, "large_capacity_requests": 2000, "meta_chains": 50},
}
for _p, _f in _FLOORS.items():
    for _tier, _d in CHECKS[_p].setdefault("floors", {}).items():
        _d.update(_f)


def _add(p, t):
    RULE_ADDENDA[p] = (RULE_ADDENDA[p] + "; " if RULE_ADDENDA.get(p) else "") + t
_META = "getters (element_layout/typeid/drop/clone, len, capacity) through clone_empty / clone_empty_in hops across all backends for 15 element layouts incl. alignments 16-64"
for _p in ("C04", "C08", "C12", "C18"):
    _add(_p, _META)
_OVER = "Stack<SIZE> with element alignments 16/32/64 driven through bytes only: capacity() elements stay inside the vector object, read back intact, survive a move of the vector"
for _p in ("C01", "C11", "C12", "C19"):
    _add(_p, _OVER)
_USER = "value sources include a user-implemented typed value whose move_into trusts the byte count, lazy clones of it, handles and lazy clones through the *_unchecked entry points, LazyClone::new; the *_unchecked getters and downcasts"
for _p in ("C01", "C03", "C05", "C09", "C11", "C13", "C18", "C19"):
    _add(_p, _USER)
_add("C04", "Clone::clone_from between element types; swap between values of different runtime types (element/wrapper/raw/handle pairings)")
_add("C19", "swap between values of different runtime types on the inline backends")
_add("C05", "a growable user backend whose fresh storage already has room for two elements")
_add("C08", "a growable user backend whose fresh storage already has room for two elements")
_add("C06", "a replacement iterator announcing usize::MAX/2 items (either ending admitted, the vector must stay valid and usable)")
_add("C17", "a stateful builder (identity, destructor) through raw parts; hand-built parts of an Empty prototype re-targeted to Heap")
_add("C18", "hand-built raw parts with capacity 0 and arbitrary dangling handles (a release of a never-allocated address is recorded)")
_add("C16", "class owner: borrows derived from owning handles (downcast_ref/mut, as_bytes, lazy_clone, LazyClone::new) must not survive the handle's drop, consumption, move or scope")
_add("C15", "typed and erased range iterators and typed views over backends whose builder or Mem is !Send / !Sync")
_CF = "Clone::clone_from workload: 31 element-type pairs, non-empty tight destinations, a Clone that panics at the k-th element, destructor accounting, storage alignment, allocator monitor"
for _p in ("C03", "C05", "C06", "C08", "C10", "C12", "C18"):
    _add(_p, _CF)
_add("C02", "a replacement iterator that gains items while the splice handle is alive; growth of the vector under a live typed range handle")
_add("C13", "the same typed view compared with the vector again after every typed operation; range and element families; over-aligned Stack workload")
_add("C10", "shrinking 32/48 MiB chunks by less than a page ends exactly at the bound")
_add("C08", "the builder carried by an empty clone is the one that built its storage")
for _p, _t in RULE_ADDENDA.items():
    CHECKS[_p]["rule"] += "; " + _t
