//! Workload families: small-scope exhaustive enumerations and random long histories.

use std::ops::Bound;

use crate::rigapi::CfgEntry;
use crate::drive::*;
use crate::ops::*;
use crate::reg;
use crate::util::Rng;

pub const ALL_LAZY: [LazySrc; 6] = [LazySrc::Ref, LazySrc::Mut, LazySrc::Pop, LazySrc::Remove, LazySrc::SwapRemove, LazySrc::Drained];

/// Lengths explored for a configuration: `0..=l` plus the `copy_bytes` threshold lengths of the stride.
pub fn lengths(cfg: &CfgEntry, l: usize, thresholds: bool) -> Vec<usize> {
    let mut v: Vec<usize> = (0..=l).collect();
    let s = cfg.elem.size;
    if thresholds && s > 0 {
        let t = 128usize.div_ceil(s);
        for x in [t.saturating_sub(1), t, t + 1] {
            if !v.contains(&x) && x > 0 {
                v.push(x);
            }
        }
    }
    if let Some(c) = cfg.fixed_cap {
        v.retain(|x| *x <= c);
        if c <= 64 {
            for x in [c.saturating_sub(1), c] {
                if !v.contains(&x) {
                    v.push(x);
                }
            }
        }
    }
    if cfg.elem.id_bits == 8 {
        v.retain(|x| *x <= 135);
    }
    v.sort();
    v
}

pub fn states_for(cfg: &CfgEntry, len: usize) -> Vec<VState> {
    let mut v = Vec::new();
    if cfg.resizable {
        v.push(VState { len, cap: CapClass::Tight, dirty: false });
        v.push(VState { len, cap: CapClass::Plus1, dirty: false });
        v.push(VState { len, cap: CapClass::Plus1, dirty: true });
        v.push(VState { len, cap: CapClass::Plus3, dirty: true });
    } else {
        v.push(VState { len, cap: CapClass::Natural, dirty: false });
        if cfg.fixed_cap.map_or(false, |c| c > len) {
            v.push(VState { len, cap: CapClass::Natural, dirty: true });
        }
    }
    v
}

/// Indices to try for a vector of length `n`: all of `0..=n+1` when small, a boundary subset otherwise.
pub fn indices(n: usize, extra: usize) -> Vec<usize> {
    if n <= 8 {
        (0..=n + extra).collect()
    } else {
        let mut v = vec![0, 1, 2, n / 2, n - 2, n - 1];
        for e in 0..=extra {
            v.push(n + e);
        }
        v.sort();
        v.dedup();
        v
    }
}

pub const OTHER: usize = 1;
pub const SPARE: usize = 2;
pub const OTHER_LEN: usize = 3;

/// Value-source kinds for feeding vector 0 from vector `OTHER` (which holds `OTHER_LEN` elements).
pub fn sources(case: &mut Case, cloneable: bool, full: bool) -> Vec<Src> {
    let mut v = vec![
        Src::Wrapper(case.fresh_id()),
        Src::Raw(case.fresh_id()),
        Src::TypelessRaw(case.fresh_id()),
        Src::SizelessRaw(case.fresh_id()),
        Src::Pop(OTHER),
        Src::Remove(OTHER, 0),
        Src::SwapRemove(OTHER, 0),
        Src::Drained(OTHER, 1),
        Src::HandleUnchecked(OTHER),
        Src::UserTyped(case.fresh_id()),
    ];
    if full {
        v.push(Src::Remove(OTHER, OTHER_LEN - 1));
        v.push(Src::SwapRemove(OTHER, OTHER_LEN - 1));
        v.push(Src::Drained(OTHER, 0));
    }
    if cloneable {
        for k in ALL_LAZY {
            v.push(Src::Lazy(k, OTHER, 1, 1));
        }
        // through the `_unchecked` entry points, built with `LazyClone::new`, and of a user-implemented typed value
        v.push(Src::Lazy(LazySrc::Ref, OTHER, 1, 11));
        v.push(Src::Lazy(LazySrc::Pop, OTHER, 1, 12));
        v.push(Src::Lazy(LazySrc::Remove, OTHER, 1, 21));
        v.push(Src::UserLazy(case.fresh_id()));
        if full {
            for k in ALL_LAZY {
                v.push(Src::Lazy(k, OTHER, 0, 2));
                v.push(Src::Lazy(k, OTHER, OTHER_LEN - 1, 3));
            }
        } else {
            v.push(Src::Lazy(LazySrc::Ref, OTHER, 0, 2));
            v.push(Src::Lazy(LazySrc::Remove, OTHER, 0, 3));
        }
    }
    v
}

pub fn sinks(case: &mut Case, full: bool) -> Vec<Sink> {
    let mut v = vec![
        Sink::DROP,
        Sink::DOWNCAST,
        Sink::new(Pre::None, Fin::Ref),
        Sink::new(Pre::None, Fin::Push(OTHER)),
        Sink::new(Pre::None, Fin::Insert(OTHER, 0)),
        Sink::new(Pre::None, Fin::Insert(OTHER, 1)),
        Sink::new(Pre::None, Fin::Insert(OTHER, OTHER_LEN)),
        Sink::new(Pre::None, Fin::Insert(OTHER, OTHER_LEN + 1)),
    ];
    // the `*_unchecked` flavours of downcast / downcast_ref / downcast_mut / swap on an owned handle
    v.push(Sink::unchecked(Pre::None, Fin::Downcast));
    v.push(Sink::unchecked(Pre::None, Fin::Ref));
    v.push(Sink::unchecked(Pre::Mutate(case.fresh_id()), Fin::Downcast));
    v.push(Sink::unchecked(Pre::SwapWrapper(case.fresh_id()), Fin::Push(OTHER)));
    v.push(Sink::unchecked(Pre::SwapRaw(case.fresh_id()), Fin::Ref));
    if full {
        for fin in [Fin::Drop, Fin::Downcast, Fin::Push(OTHER), Fin::Insert(OTHER, 1)] {
            v.push(Sink::new(Pre::Mutate(case.fresh_id()), fin));
            v.push(Sink::new(Pre::SwapWrapper(case.fresh_id()), fin));
            v.push(Sink::new(Pre::SwapRaw(case.fresh_id()), fin));
            v.push(Sink::new(Pre::Inspect, fin));
        }
    } else {
        v.push(Sink::new(Pre::Mutate(case.fresh_id()), Fin::Downcast));
        v.push(Sink::new(Pre::SwapWrapper(case.fresh_id()), Fin::Push(OTHER)));
        v.push(Sink::new(Pre::SwapRaw(case.fresh_id()), Fin::Drop));
        v.push(Sink::new(Pre::Inspect, Fin::Downcast));
    }
    v
}

pub fn singles(ops: Vec<Op>) -> Vec<Vec<Op>> {
    ops.into_iter().map(|o| vec![o]).collect()
}
pub fn elem_seqs(case: &mut Case, n: usize, full: bool) -> Vec<Vec<Op>> {
    singles(elem_ops(case, n, full))
}

/// All element-wise operation instances on vector 0 in a state of length `n`.
pub fn elem_ops(case: &mut Case, n: usize, full: bool) -> Vec<Op> {
    let cl = case.cfg.cloneable;
    let mut ops = Vec::new();
    for s in sources(case, cl, full) {
        ops.push(Op::Push { v: 0, src: s });
    }
    for at in indices(n, 1) {
        for s in sources(case, cl, full && n <= 4) {
            ops.push(Op::Insert { v: 0, at, src: s });
        }
    }
    ops.push(Op::Insert { v: 0, at: usize::MAX, src: Src::Wrapper(case.fresh_id()) });
    ops.push(Op::Insert { v: 0, at: usize::MAX, src: Src::Raw(case.fresh_id()) });
    for s in sinks(case, full) {
        ops.push(Op::Pop { v: 0, sink: s });
    }
    for at in indices(n, 1) {
        let rich = at == 0 || at + 1 == n || (n > 2 && at == n / 2);
        let ss = if rich { sinks(case, full && n <= 4) } else { vec![Sink::DROP, Sink::DOWNCAST, Sink::new(Pre::None, Fin::Push(OTHER))] };
        for s in ss {
            ops.push(Op::Remove { v: 0, at, sink: s });
            ops.push(Op::SwapRemove { v: 0, at, sink: s });
        }
    }
    ops.push(Op::Remove { v: 0, at: usize::MAX, sink: Sink::DROP });
    ops.push(Op::SwapRemove { v: 0, at: usize::MAX, sink: Sink::DROP });
    ops.push(Op::Clear { v: 0 });
    ops.push(Op::TClear { v: 0 });
    ops.push(Op::TPush { v: 0, id: case.fresh_id() });
    ops.push(Op::TPop { v: 0 });
    for at in indices(n, 1) {
        ops.push(Op::TInsert { v: 0, at, id: case.fresh_id() });
        ops.push(Op::TRemove { v: 0, at });
        ops.push(Op::TSwapRemove { v: 0, at });
        for how in [GetHow::Get, GetHow::At, GetHow::GetMut, GetHow::AtMut, GetHow::TGet, GetHow::TAt, GetHow::TGetMut, GetHow::TAtMut, GetHow::GetUnchecked, GetHow::GetUncheckedMut, GetHow::TGetUnchecked, GetHow::TGetUncheckedMut] {
            ops.push(Op::Get { v: 0, at, how });
        }
    }
    ops.push(Op::TInsert { v: 0, at: usize::MAX, id: case.fresh_id() });
    ops.push(Op::TRemove { v: 0, at: usize::MAX });
    ops.push(Op::Get { v: 0, at: usize::MAX, how: GetHow::Get });
    ops.push(Op::Get { v: 0, at: usize::MAX, how: GetHow::At });
    for how in [
        IterHow::Iter, IterHow::IterMut, IterHow::IntoIterRef, IterHow::IntoIterMut, IterHow::TIter, IterHow::TIterMut,
        IterHow::TIntoIterRef, IterHow::TIntoIterMut,
    ] {
        ops.push(Op::Iter { v: 0, how, rev: false });
        ops.push(Op::Iter { v: 0, how, rev: true });
    }
    ops
}

/// Prepare the standard three-vector arrangement: v0 in `st`, v1 with `OTHER_LEN` elements, v2 empty.
pub fn arrange<'a>(ctx: &mut Ctx, cfg: &'a CfgEntry, st: VState) -> Case<'a> {
    let mut case = Case::new(ctx, cfg);
    case.desc = format!("{}|{}", cfg.name, st.label());
    case.build_state(ctx, 0, st);
    let other_len = match cfg.fixed_cap {
        Some(c) => OTHER_LEN.min(c),
        None => OTHER_LEN,
    };
    case.build_state(ctx, OTHER, VState { len: other_len, cap: CapClass::Plus1, dirty: false });
    case
}

/// Exhaustive small-scope family: every operation instance produced by `gen` from every abstract state.
pub fn exhaustive(
    ctx: &mut Ctx,
    family: &str,
    cfgs: &[CfgEntry],
    l: usize,
    thresholds: bool,
    gen: &dyn Fn(&mut Case, usize, bool) -> Vec<Vec<Op>>,
) {
    if ctx.sampled && ctx.only.is_none() {
        return sampled(ctx, family, cfgs, l, thresholds, gen);
    }
    ctx.begin_family(family);
    let full = ctx.thorough();
    for cfg in cfgs {
        if !ctx.wants_cfg(cfg) {
            continue;
        }
        ctx.begin_cfg(cfg);
        for len in lengths(cfg, l, thresholds) {
            for st in states_for(cfg, len) {
                if cfg.fixed_cap.map_or(false, |c| c < OTHER_LEN) {
                    continue;
                }
                // enumerate the operation instances once (state building is deterministic, so the
                // identities chosen here are valid for every re-built copy of the state)
                let ops = {
                    let mut scratch = arrange(ctx, cfg, st);
                    let ops = gen(&mut scratch, len, full);
                    scratch.finish(ctx);
                    ops
                };
                for seq in ops.iter() {
                    if !ctx.take_sig(cfg, &opsig(seq.last().unwrap())) {
                        continue;
                    }
                    let mut case = arrange(ctx, cfg, st);
                    case.desc = format!("{}|{}|#{}", cfg.name, st.label(), ctx.ordinal - 1);
                    let mut nontrivial = false;
                    let mut skipped = false;
                    for op in seq {
                        let (out, exp) = case.step(ctx, op);
                        nontrivial |= exp.nontrivial;
                        if out.unsupported {
                            skipped = true;
                            break;
                        }
                    }
                    let desc = format!("{} | {}", case.desc, seq.iter().map(|o| o.to_string()).collect::<Vec<_>>().join("; "));
                    case.finish(ctx);
                    if !skipped {
                        record(ctx, cfg, &st.label(), seq, nontrivial, &desc);
                    }
                }
            }
        }
    }
}

/// Tool modes (Miri, sanitizers, valgrind): the same case space, but a seeded stratified sample
/// of it: states are drawn at random, the operation list of a state is generated once and a few
/// instances are run from it, preferring (backend, operation signature) strata not yet covered.
/// `ctx.quota` = number of cases per family for this shard.
pub fn sampled(
    ctx: &mut Ctx,
    family: &str,
    cfgs: &[CfgEntry],
    l: usize,
    thresholds: bool,
    gen: &dyn Fn(&mut Case, usize, bool) -> Vec<Vec<Op>>,
) {
    ctx.begin_family(family);
    let cfgs: Vec<&CfgEntry> = cfgs.iter().filter(|c| ctx.wants_cfg(c) && c.fixed_cap.map_or(true, |c| c >= OTHER_LEN)).collect();
    if cfgs.is_empty() {
        return;
    }
    let mut rng = Rng::new(ctx.seed ^ crate::util::fnv(family) ^ ((ctx.shard as u64) << 40));
    let budget = ctx.quota.max(1);
    let per_state = 4u64;
    let mut done = 0u64;
    let mut round = ctx.shard;
    let mut attempts = 0;
    while done < budget && ctx.per_sig.len() < ctx.max_viols && attempts < budget * 8 {
        attempts += 1;
        let cfg = cfgs[round % cfgs.len()];
        round += 1;
        ctx.stats.cfgs.insert(cfg.name.clone());
        // under an interpreter the long threshold states are visited rarely
        let lens = lengths(cfg, l, thresholds && (!ctx.lean || rng.chance(1, 6)));
        let len = *rng.pick(&lens);
        let sts = states_for(cfg, len);
        let st = *rng.pick(&sts);
        let seqs = {
            let mut scratch = arrange(ctx, cfg, st);
            let o = gen(&mut scratch, len, false);
            scratch.finish(ctx);
            o
        };
        if seqs.is_empty() {
            continue;
        }
        // candidate instances: prefer strata not covered yet
        let mut picks: Vec<usize> = Vec::new();
        for _ in 0..64 {
            let k = rng.below(seqs.len());
            let key = format!("{:?}|{}", cfg.mem, opsig(seqs[k].last().unwrap()));
            if !ctx.strata.contains_key(&key) && !picks.contains(&k) {
                picks.push(k);
                ctx.strata.insert(key, 1);
            }
            if picks.len() as u64 >= per_state {
                break;
            }
        }
        if picks.is_empty() {
            picks.push(rng.below(seqs.len()));
        }
        for k in picks {
            if done >= budget {
                break;
            }
            let seq = &seqs[k];
            ctx.ordinal = k as u64 + 1;
            ctx.breadcrumb(&format!("{}|{}", cfg.name, st.label()), k as u64);
            let mut case = arrange(ctx, cfg, st);
            if ctx.leaks_ok_default {
                case.leaks_ok = true;
                case.check_clones = false;
            }
            case.desc = format!("{}|{}|sample#{}", cfg.name, st.label(), k);
            let mut nontrivial = false;
            let mut skipped = false;
            for op in seq {
                let (out, exp) = case.step(ctx, op);
                nontrivial |= exp.nontrivial;
                if out.unsupported {
                    skipped = true;
                    break;
                }
            }
            let desc = format!("{} | {}", case.desc, seq.iter().map(|o| o.to_string()).collect::<Vec<_>>().join("; "));
            case.finish(ctx);
            if !skipped {
                record(ctx, cfg, &st.label(), seq, nontrivial, &desc);
                done += 1;
            }
        }
    }
}

// ---------------------------------------------------------------------------------------------
// random histories

#[derive(Clone, Copy)]
pub struct HistParams {
    pub histories: usize,
    pub ops: usize,
    pub max_len: usize,
    pub ranges: bool,
    pub elems: bool,
    pub capacity: bool,
    pub clones: bool,
    pub invalid_pct: u64,
}

fn rand_bound_pair(rng: &mut Rng, len: usize, invalid: bool) -> (Bound<usize>, Bound<usize>) {
    if invalid {
        return match rng.below(6) {
            0 => (Bound::Included(len + 1), Bound::Unbounded),
            1 => (Bound::Unbounded, Bound::Excluded(len + 1)),
            2 => (Bound::Unbounded, Bound::Included(len)),
            3 => (Bound::Included(2.min(len + 1).max(1)), Bound::Excluded(0)),
            4 => (Bound::Unbounded, Bound::Included(usize::MAX)),
            _ => (Bound::Excluded(usize::MAX), Bound::Unbounded),
        };
    }
    let a = rng.below(len + 1);
    let b = a + rng.below(len - a + 1);
    let lo = match rng.below(3) {
        0 => Bound::Included(a),
        1 if a > 0 => Bound::Excluded(a - 1),
        _ if a == 0 => Bound::Unbounded,
        _ => Bound::Included(a),
    };
    let hi = match rng.below(3) {
        0 => Bound::Excluded(b),
        1 if b > 0 => Bound::Included(b - 1),
        _ if b == len => Bound::Unbounded,
        _ => Bound::Excluded(b),
    };
    (lo, hi)
}

fn rand_sink(rng: &mut Rng, case: &mut Case, v: usize) -> Sink {
    let others: Vec<usize> = (0..NVECS).filter(|x| *x != v).collect();
    let w = *rng.pick(&others);
    let wl = case.model.vecs[w].len();
    let room = case.cfg.fixed_cap.map_or(true, |c| wl < c);
    let pre = match rng.below(8) {
        0 => Pre::Mutate(case.fresh_id()),
        1 => Pre::SwapWrapper(case.fresh_id()),
        2 => Pre::SwapRaw(case.fresh_id()),
        3 => Pre::Inspect,
        _ => Pre::None,
    };
    let fin = match rng.below(6) {
        0 => Fin::Drop,
        1 => Fin::Downcast,
        2 => Fin::Ref,
        3 | 4 if room => Fin::Push(w),
        _ if room => Fin::Insert(w, rng.below(wl + 1)),
        _ => Fin::Drop,
    };
    Sink::new(pre, fin)
}

/// Pick a value source for destination `v` (a removal handle of another vector needs a non-empty one).
fn rand_src(rng: &mut Rng, case: &mut Case, v: usize) -> Src {
    let others: Vec<usize> = (0..NVECS).filter(|x| *x != v && !case.model.vecs[*x].is_empty()).collect();
    let k = rng.below(if others.is_empty() { 4 } else if case.cfg.cloneable { 14 } else { 9 });
    match k {
        0 => Src::Wrapper(case.fresh_id()),
        1 => Src::Raw(case.fresh_id()),
        2 => Src::TypelessRaw(case.fresh_id()),
        3 => Src::SizelessRaw(case.fresh_id()),
        _ => {
            let w = *rng.pick(&others);
            let j = rng.below(case.model.vecs[w].len());
            match k {
                4 => Src::Pop(w),
                5 | 6 => Src::Remove(w, j),
                7 => Src::SwapRemove(w, j),
                8 => Src::Drained(w, j),
                _ => Src::Lazy(*rng.pick(&ALL_LAZY), w, j, 1 + rng.below(3) as u8),
            }
        }
    }
}

pub fn rand_script(rng: &mut Rng, case: &mut Case, v: usize, range_len: usize) -> Vec<Step> {
    let n = match rng.below(4) {
        0 => 0,
        1 => range_len,
        2 => range_len + 2,
        _ => rng.below(range_len + 1),
    };
    let n = n.min(12);
    (0..n)
        .map(|_| Step { back: rng.chance(1, 2), sink: if rng.chance(1, 3) { rand_sink(rng, case, v) } else { Sink::DROP }, skip: if rng.chance(1, 6) { 1 + rng.below(2) as u8 } else { 0 } })
        .collect()
}

pub fn gen_op(rng: &mut Rng, case: &mut Case, p: &HistParams) -> Op {
    let v = rng.below(NVECS);
    let len = case.model.vecs[v].len();
    let invalid = rng.chance(p.invalid_pct, 100);
    let room = case.cfg.fixed_cap.map_or(len < p.max_len, |c| len < c) || invalid;
    let mut kinds: Vec<u32> = Vec::new();
    if p.elems {
        kinds.extend_from_slice(&[0, 0, 0, 1, 1, 2, 3, 4, 5, 6, 6, 7, 8, 9, 10, 11, 12, 13]);
    }
    if p.ranges {
        kinds.extend_from_slice(&[20, 20, 21, 21, 22, 23]);
    }
    if p.capacity && case.cfg.resizable {
        kinds.extend_from_slice(&[30, 31, 32, 33]);
    }
    if p.clones {
        kinds.extend_from_slice(&[40, 41, 42]);
    }
    loop {
        let k = *rng.pick(&kinds);
        let idx_in = |rng: &mut Rng| if len == 0 { 0 } else { rng.below(len) };
        match k {
            0 if room => return Op::Push { v, src: rand_src(rng, case, v) },
            1 if room => {
                let at = if invalid { len + 1 + rng.below(2) } else { rng.below(len + 1) };
                return Op::Insert { v, at, src: rand_src(rng, case, v) };
            }
            2 => return Op::Pop { v, sink: rand_sink(rng, case, v) },
            3 if len > 0 || invalid => {
                let at = if invalid { len + rng.below(2) } else { idx_in(rng) };
                return Op::Remove { v, at, sink: rand_sink(rng, case, v) };
            }
            4 if len > 0 || invalid => {
                let at = if invalid { len + rng.below(2) } else { idx_in(rng) };
                return Op::SwapRemove { v, at, sink: rand_sink(rng, case, v) };
            }
            5 if rng.chance(1, 8) => return if rng.chance(1, 2) { Op::Clear { v } } else { Op::TClear { v } },
            6 if room => return Op::TPush { v, id: case.fresh_id() },
            7 if room => {
                let at = if invalid { len + 1 } else { rng.below(len + 1) };
                return Op::TInsert { v, at, id: case.fresh_id() };
            }
            8 => return Op::TPop { v },
            9 if len > 0 || invalid => return Op::TRemove { v, at: if invalid { len } else { idx_in(rng) } },
            10 if len > 0 || invalid => return Op::TSwapRemove { v, at: if invalid { len } else { idx_in(rng) } },
            11 => {
                let how = *rng.pick(&[GetHow::Get, GetHow::At, GetHow::GetMut, GetHow::AtMut, GetHow::TGet, GetHow::TAt, GetHow::TGetMut, GetHow::TAtMut, GetHow::GetUnchecked, GetHow::GetUncheckedMut, GetHow::TGetUnchecked, GetHow::TGetUncheckedMut]);
                let at = if invalid { len + rng.below(2) } else if len == 0 { continue } else { idx_in(rng) };
                return Op::Get { v, at, how };
            }
            12 if len <= 64 => {
                let how = *rng.pick(&[
                    IterHow::Iter, IterHow::IterMut, IterHow::IntoIterRef, IterHow::IntoIterMut, IterHow::TIter, IterHow::TIterMut,
                    IterHow::TIntoIterRef, IterHow::TIntoIterMut,
                ]);
                return Op::Iter { v, how, rev: rng.chance(1, 2) };
            }
            20 | 22 => {
                let (lo, hi) = rand_bound_pair(rng, len, invalid);
                let rl = crate::model::resolve_range(&lo, &hi, len).map_or(0, |(a, b)| b - a);
                let script = rand_script(rng, case, v, rl);
                return Op::Drain { v, lo, hi, typed: k == 22, script, end: End::Drop };
            }
            21 | 23 => {
                let (lo, hi) = rand_bound_pair(rng, len, invalid);
                let (a, b) = crate::model::resolve_range(&lo, &hi, len).unwrap_or((0, 0));
                let rl = b - a;
                let maxk = match case.cfg.fixed_cap {
                    Some(c) => (c - (len - rl)).min(6),
                    None => 6,
                };
                let n = rng.below(maxk + 1);
                let typed = k == 23;
                let others: Vec<usize> = (0..NVECS).filter(|x| *x != v && !case.model.vecs[*x].is_empty()).collect();
                let repl = match rng.below(if typed { 1 } else if others.is_empty() { 2 } else if case.cfg.cloneable { 4 } else { 3 }) {
                    0 => Repl::Wrappers((0..n).map(|_| case.fresh_id()).collect()),
                    1 => Repl::Raws((0..n).map(|_| case.fresh_id()).collect()),
                    2 => {
                        let w = *rng.pick(&others);
                        let wl = case.model.vecs[w].len();
                        let a = rng.below(wl + 1);
                        let b = a + rng.below((wl - a).min(maxk) + 1);
                        Repl::DrainOf(w, a, b)
                    }
                    _ => {
                        let w = *rng.pick(&others);
                        let wl = case.model.vecs[w].len();
                        Repl::LazyRefs(w, (0..n).map(|_| rng.below(wl)).collect())
                    }
                };
                // sinks of a splice script must not touch the replacement's source vector
                let mut script = rand_script(rng, case, v, rl);
                let srcw = match &repl {
                    Repl::DrainOf(w, ..) | Repl::LazyRefs(w, _) => Some(*w),
                    _ => None,
                };
                for st in script.iter_mut() {
                    let touches = match st.sink.fin {
                        Fin::Push(w) | Fin::Insert(w, _) => Some(w) == srcw,
                        _ => false,
                    };
                    if touches || case.cfg.fixed_cap.is_some() {
                        st.sink = Sink::new(st.sink.pre, Fin::Downcast);
                    }
                }
                return Op::Splice { v, lo, hi, typed, repl, script, end: End::Drop };
            }
            30 => return Op::Reserve { v, n: rng.below(8), exact: false, typed: rng.chance(1, 3) },
            31 => return Op::Reserve { v, n: rng.below(8), exact: true, typed: rng.chance(1, 3) },
            32 => return Op::ShrinkToFit { v, typed: rng.chance(1, 3) },
            33 => return Op::ShrinkTo { v, n: rng.below(len + 6), typed: rng.chance(1, 3) },
            40 if case.cfg.cloneable => {
                let into = (v + 1 + rng.below(NVECS - 1)) % NVECS;
                if case.cfg.fixed_cap.is_some() && false {
                    continue;
                }
                return Op::CloneVec { v, into };
            }
            41 => {
                let into = (v + 1 + rng.below(NVECS - 1)) % NVECS;
                return Op::CloneEmpty { v, into };
            }
            42 if case.cfg.mem == crate::rigapi::MemKind::Heap => return Op::RawRoundTrip { v, times: 1 + rng.below(2) as u8 },
            _ => continue,
        }
    }
}

pub fn histories(ctx: &mut Ctx, family: &str, cfgs: &[CfgEntry], p: &HistParams) {
    ctx.begin_family(family);
    for (ci, cfg) in cfgs.iter().enumerate() {
        if !ctx.wants_cfg(cfg) {
            continue;
        }
        ctx.begin_cfg(cfg);
        for h in 0..p.histories {
            if ctx.sampled && ctx.only.is_none() {
                // spread the (few) tool-mode histories over the shards by configuration
                ctx.ordinal += 1;
                if (ci + h) % ctx.nshards != ctx.shard {
                    continue;
                }
                ctx.breadcrumb(&cfg.name, h as u64);
            } else if !ctx.take(cfg) {
                continue;
            }
            let mut rng = Rng::new(ctx.seed ^ crate::util::fnv(&cfg.name) ^ ((h as u64) << 32) ^ crate::util::fnv(family));
            let mut case = Case::new(ctx, cfg);
            case.desc = format!("{}|history#{}(seed={})", cfg.name, h, ctx.seed);
            let max_len = if cfg.elem.id_bits == 8 { p.max_len.min(40) } else { p.max_len };
            let pp = HistParams { max_len, ..*p };
            let mut ops_done: Vec<Op> = Vec::new();
            let mut nontrivial = false;
            for step in 0..p.ops {
                let op = gen_op(&mut rng, &mut case, &pp);
                let d0 = case.desc.clone();
                case.desc = format!("{d0}|step{step}");
                let (_o, e) = case.step(ctx, &op);
                case.desc = d0;
                nontrivial |= e.nontrivial;
                if ops_done.len() < 6 {
                    ops_done.push(op);
                }
                if case.failed {
                    break;
                }
            }
            let desc = format!(
                "{} | {} ... ({} ops)",
                case.desc,
                ops_done.iter().map(|o| o.to_string()).collect::<Vec<_>>().join("; "),
                p.ops
            );
            case.finish(ctx);
            record(ctx, cfg, "history", &ops_done, nontrivial, &desc);
        }
    }
}

// ---------------------------------------------------------------------------------------------
// range operations (drain / splice)

/// Every `(lo, hi)` bound pair that denotes `a..b` on a vector of length `n`.
pub fn bound_forms(a: usize, b: usize, n: usize) -> Vec<(Bound<usize>, Bound<usize>)> {
    let mut los = vec![Bound::Included(a)];
    if a > 0 {
        los.push(Bound::Excluded(a - 1));
    } else {
        los.push(Bound::Unbounded);
    }
    let mut his = vec![Bound::Excluded(b)];
    if b > 0 {
        his.push(Bound::Included(b - 1));
    }
    if b == n {
        his.push(Bound::Unbounded);
    }
    let mut v = Vec::new();
    for l in &los {
        for h in &his {
            v.push((*l, *h));
        }
    }
    v
}

/// Ranges that must be rejected on a vector of length `n`.
pub fn invalid_ranges(n: usize) -> Vec<(Bound<usize>, Bound<usize>)> {
    let m = usize::MAX;
    let mut v = vec![
        (Bound::Unbounded, Bound::Excluded(n + 1)),
        (Bound::Unbounded, Bound::Included(n)),
        (Bound::Included(n + 1), Bound::Unbounded),
        (Bound::Excluded(n), Bound::Unbounded),
        (Bound::Included(n + 1), Bound::Excluded(n + 1)),
        (Bound::Included(0), Bound::Included(m)),
        (Bound::Unbounded, Bound::Included(m)),
        (Bound::Unbounded, Bound::Excluded(m)),
        (Bound::Excluded(m), Bound::Unbounded),
        (Bound::Included(m), Bound::Unbounded),
        (Bound::Excluded(m), Bound::Included(m)),
        (Bound::Included(m), Bound::Included(m)),
        (Bound::Excluded(m - 1), Bound::Excluded(m)),
    ];
    if n >= 1 {
        v.push((Bound::Included(1), Bound::Excluded(0)));
        v.push((Bound::Included(n), Bound::Excluded(n - 1)));
        v.push((Bound::Excluded(n - 1), Bound::Excluded(n - 1)));
        v.push((Bound::Excluded(0), Bound::Included(0)).clone());
    }
    // the last one (Excluded(0), Included(0)) denotes 1..1 which is valid when n >= 1: drop it
    if n >= 1 {
        v.pop();
    }
    v
}

/// All next/next_back choice strings of length <= `r` (+ `extra` steps beyond exhaustion on the longest).
pub fn choice_strings(r: usize, extra: usize, all: bool) -> Vec<Vec<bool>> {
    let mut v: Vec<Vec<bool>> = vec![vec![]];
    if all && r <= 6 {
        for len in 1..=r {
            for bits in 0..(1u32 << len) {
                v.push((0..len).map(|i| bits >> i & 1 == 1).collect());
            }
        }
    } else {
        for len in 1..=r {
            v.push(vec![false; len]);
            v.push(vec![true; len]);
            v.push((0..len).map(|i| i % 2 == 0).collect());
            v.push((0..len).map(|i| i % 2 == 1).collect());
        }
        v.sort();
        v.dedup();
    }
    if extra > 0 {
        let mut a = vec![false; r];
        let mut b = vec![true; r];
        let mut c: Vec<bool> = (0..r).map(|i| i % 2 == 0).collect();
        for k in 0..extra {
            a.push(k % 2 == 0);
            b.push(k % 2 == 1);
            c.push(k % 2 == 0);
        }
        v.push(a);
        v.push(b);
        v.push(c);
    }
    v
}

fn to_steps(bits: &[bool], sinks: &[Sink]) -> Vec<Step> {
    bits.iter().enumerate().map(|(i, b)| Step { back: *b, sink: sinks[i % sinks.len()], skip: 0 }).collect()
}

pub fn range_ops(case: &mut Case, n: usize, full: bool) -> Vec<Vec<Op>> {
    let mut ops: Vec<Op> = Vec::new();
    let cl = case.cfg.cloneable;
    let fixed = case.cfg.fixed_cap;
    let k_max = if full { 5 } else { 3 };
    let big = n > 8;
    let ranges: Vec<(usize, usize)> = if big {
        vec![(0, 0), (0, 1), (0, n), (1, n - 1), (n / 2, n / 2 + 2), (n - 1, n), (n, n), (2, 3)]
    } else {
        let mut r = Vec::new();
        for a in 0..=n {
            for b in a..=n {
                r.push((a, b));
            }
        }
        r
    };
    let sink_sets: Vec<Vec<Sink>> = vec![
        vec![Sink::DROP],
        vec![Sink::DOWNCAST],
        vec![Sink::new(Pre::None, Fin::Push(OTHER)), Sink::DROP],
        vec![Sink::new(Pre::Mutate(case.fresh_id()), Fin::Downcast), Sink::new(Pre::Inspect, Fin::Ref)],
    ];
    for (a, b) in &ranges {
        let (a, b) = (*a, *b);
        let r = b - a;
        let canon = (Bound::Included(a), Bound::Excluded(b));
        // drain: every choice string on the canonical form, erased and typed
        for bits in choice_strings(r.min(6), 3, !big) {
            for (si, ss) in sink_sets.iter().enumerate() {
                if si > 0 && (bits.is_empty() || (bits.len() != r && !full)) {
                    continue;
                }
                if fixed.is_some() && si == 2 {
                    continue;
                }
                for typed in [false, true] {
                    if typed && si == 3 {
                        continue;
                    }
                    ops.push(Op::Drain { v: 0, lo: canon.0, hi: canon.1, typed, script: to_steps(&bits, ss), end: End::Drop });
                }
            }
        }
        // nth / nth_back / mixed with next: the iterator consumes the skipped items itself
        if r >= 2 {
            for (pattern, typed) in [(0usize, false), (1, false), (2, false), (0, true), (1, true)] {
                let mut st: Vec<Step> = Vec::new();
                match pattern {
                    0 => {
                        st.push(Step { back: false, sink: Sink::DOWNCAST, skip: 1 });
                        st.push(Step { back: true, sink: Sink::DROP, skip: 0 });
                    }
                    1 => {
                        st.push(Step { back: true, sink: Sink::DOWNCAST, skip: (r - 1).min(2) as u8 });
                        st.push(Step { back: false, sink: Sink::DOWNCAST, skip: 0 });
                    }
                    _ => {
                        st.push(Step { back: false, sink: Sink::DROP, skip: r.min(7) as u8 });
                        st.push(Step { back: true, sink: Sink::DROP, skip: 1 });
                    }
                }
                ops.push(Op::Drain { v: 0, lo: canon.0, hi: canon.1, typed, script: st.clone(), end: End::Drop });
                ops.push(Op::Splice { v: 0, lo: canon.0, hi: canon.1, typed, repl: Repl::Wrappers(vec![case.fresh_id()]), script: st, end: End::Drop });
            }
        }
        // the bulk methods and early-exit searches an implementation may override: the rest of the range is consumed through
        // count / last / fold / rfold / step_by / for_each / max_by_key / min_by_key, or searched by find / rfind / position /
        // rposition / any / all (aimed at the first, middle and last element of the range and at one outside it)
        for end in End::finishers(&[a, (a + b) / 2, b.saturating_sub(1), b]) {
            let search = end.index().is_some();
            for (pattern, typed) in [(0usize, false), (1, false), (2, false), (0, true), (2, true)] {
                if search && (pattern == 1 || (pattern == 2 && typed)) {
                    continue;
                }
                let st: Vec<Step> = match pattern {
                    0 => vec![],
                    1 => vec![Step { back: false, sink: Sink::DOWNCAST, skip: 0 }],
                    _ => vec![Step { back: true, sink: Sink::DROP, skip: 0 }, Step { back: false, sink: Sink::DROP, skip: 0 }],
                };
                if st.len() > r {
                    continue;
                }
                ops.push(Op::Drain { v: 0, lo: canon.0, hi: canon.1, typed, script: st.clone(), end });
                if pattern == 0 || (pattern == 2 && !search) {
                    ops.push(Op::Splice { v: 0, lo: canon.0, hi: canon.1, typed, repl: Repl::Wrappers(vec![case.fresh_id(), case.fresh_id()]), script: st, end });
                }
            }
        }
        // every other RangeBounds form denoting the same range
        for (lo, hi) in bound_forms(a, b, n) {
            if (lo, hi) == canon {
                continue;
            }
            for typed in [false, true] {
                ops.push(Op::Drain { v: 0, lo, hi, typed, script: vec![], end: End::Drop });
                ops.push(Op::Drain { v: 0, lo, hi, typed, script: to_steps(&vec![false; r.min(6)], &[Sink::DOWNCAST]), end: End::Drop });
                ops.push(Op::Splice { v: 0, lo, hi, typed, repl: Repl::Wrappers(vec![case.fresh_id()]), script: vec![Step { back: true, sink: Sink::DROP, skip: 0 }], end: End::Drop });
            }
        }
        // splice: replacement lengths x kinds x a few consumption patterns
        let scripts: Vec<Vec<bool>> = {
            let mut s = vec![vec![], vec![false; r.min(6)], vec![true; r.min(6)]];
            if r >= 2 {
                s.push(vec![false]);
                s.push(vec![true]);
                s.push((0..r.min(6)).map(|i| i % 2 == 0).collect());
            }
            s.push(vec![true; r.min(6) + 2]);
            s
        };
        for k in 0..=k_max {
            if let Some(c) = fixed {
                // also one past capacity
                if n - r + k > c + 1 {
                    continue;
                }
            }
            for bits in &scripts {
                let steps = to_steps(bits, &[Sink::DROP, Sink::DOWNCAST]);
                let ids = |case: &mut Case| (0..k).map(|_| case.fresh_id()).collect::<Vec<_>>();
                ops.push(Op::Splice { v: 0, lo: canon.0, hi: canon.1, typed: false, repl: Repl::Wrappers(ids(case)), script: steps.clone(), end: End::Drop });
                ops.push(Op::Splice { v: 0, lo: canon.0, hi: canon.1, typed: true, repl: Repl::Wrappers(ids(case)), script: steps.clone(), end: End::Drop });
                ops.push(Op::Splice { v: 0, lo: canon.0, hi: canon.1, typed: false, repl: Repl::Raws(ids(case)), script: steps.clone(), end: End::Drop });
                if k >= 1 && bits.len() <= 2 {
                    // the replacement gains its last item(s) while the splice handle is alive
                    ops.push(Op::Splice { v: 0, lo: canon.0, hi: canon.1, typed: false, repl: Repl::Growing(ids(case), 1), script: steps.clone(), end: End::Drop });
                    ops.push(Op::Splice { v: 0, lo: canon.0, hi: canon.1, typed: true, repl: Repl::Growing(ids(case), k.min(2)), script: steps.clone(), end: End::Drop });
                }
                if k <= OTHER_LEN {
                    ops.push(Op::Splice { v: 0, lo: canon.0, hi: canon.1, typed: false, repl: Repl::DrainOf(OTHER, 0, k), script: steps.clone(), end: End::Drop });
                    if k >= 1 && bits.is_empty() {
                        ops.push(Op::Splice { v: 0, lo: canon.0, hi: canon.1, typed: false, repl: Repl::DrainOf(OTHER, OTHER_LEN - k, OTHER_LEN), script: steps.clone(), end: End::Drop });
                    }
                }
                if cl {
                    let js: Vec<usize> = (0..k).map(|i| (i * 2) % OTHER_LEN).collect();
                    ops.push(Op::Splice { v: 0, lo: canon.0, hi: canon.1, typed: false, repl: Repl::LazyRefs(OTHER, js), script: steps.clone(), end: End::Drop });
                }
            }
        }
    }
    for (lo, hi) in invalid_ranges(n) {
        for typed in [false, true] {
            ops.push(Op::Drain { v: 0, lo, hi, typed, script: vec![], end: End::Drop });
            ops.push(Op::Splice { v: 0, lo, hi, typed, repl: Repl::Wrappers(vec![case.fresh_id(), case.fresh_id()]), script: vec![], end: End::Drop });
        }
        ops.push(Op::Splice { v: 0, lo, hi, typed: false, repl: Repl::DrainOf(OTHER, 0, 2), script: vec![], end: End::Drop });
    }
    singles(ops)
}

// ---------------------------------------------------------------------------------------------
// iterators (C14)

pub fn iter_ops(_case: &mut Case, n: usize, _full: bool) -> Vec<Vec<Op>> {
    let mut ops = Vec::new();
    let hows = [
        IterHow::Iter, IterHow::IterMut, IterHow::IntoIterRef, IterHow::IntoIterMut, IterHow::TIter, IterHow::TIterMut,
        IterHow::TIntoIterRef, IterHow::TIntoIterMut,
    ];
    for how in hows {
        for bits in choice_strings(n.min(7), 6, n <= 7) {
            ops.push(Op::IterScript { v: 0, how, script: bits.clone(), skips: vec![], clone_at: None, end: End::Drop });
            if matches!(how, IterHow::Iter | IterHow::IntoIterRef | IterHow::TIter) && !bits.is_empty() {
                for at in [0, bits.len() / 2, bits.len() - 1] {
                    ops.push(Op::IterScript { v: 0, how, script: bits.clone(), skips: vec![], clone_at: Some(at), end: End::Drop });
                }
            }
        }
    }
    // the bulk methods and early-exit searches an implementation may override (count / last / fold / rfold / step_by / for_each /
    // max_by_key / min_by_key / find / rfind / position / rposition / any / all) after 0..3 steps from either end
    for how in hows {
        for end in End::finishers(&[0, n / 2, n.saturating_sub(1), n]) {
            for script in [vec![], vec![false], vec![true], vec![false, true], vec![true, true, false]] {
                if end.index().is_some() && script.len() == 1 {
                    continue;
                }
                ops.push(Op::IterScript { v: 0, how, script: script.clone(), skips: vec![], clone_at: None, end });
                if matches!(how, IterHow::Iter | IterHow::TIter) && !script.is_empty() && end.index().is_none() {
                    ops.push(Op::IterScript { v: 0, how, script, skips: vec![], clone_at: Some(0), end });
                }
            }
        }
    }
    // nth / nth_back mixed with next / next_back (the i-th item must still be the i-th element)
    for how in hows {
        for (script, skips) in [
            (vec![false, false, true], vec![0u8, 1, 0]),
            (vec![false, false, false], vec![1, 1, 0]),
            (vec![true, true, false], vec![0, 1, 1]),
            (vec![false, true, false, true], vec![2, 0, 0, 2]),
            (vec![false, false], vec![0, n.min(9) as u8]),
            (vec![true, false], vec![n.min(9) as u8, 0]),
        ] {
            ops.push(Op::IterScript { v: 0, how, script: script.clone(), skips: skips.clone(), clone_at: None, end: End::Drop });
            if matches!(how, IterHow::Iter | IterHow::TIter) {
                ops.push(Op::IterScript { v: 0, how, script, skips, clone_at: Some(1), end: End::Drop });
            }
        }
    }
    singles(ops)
}

// ---------------------------------------------------------------------------------------------
// clone (C08)

pub fn clone_ops(case: &mut Case, n: usize, full: bool) -> Vec<Vec<Op>> {
    let mut seqs: Vec<Vec<Op>> = Vec::new();
    seqs.push(vec![Op::CloneVec { v: 0, into: SPARE }]);
    seqs.push(vec![Op::CloneEmpty { v: 0, into: SPARE }]);
    seqs.push(vec![Op::CloneVec { v: 0, into: OTHER }]);
    for t in [Target::Heap, Target::Guard, Target::Stack, Target::StackN] {
        seqs.push(vec![Op::CloneEmptyIn { v: 0, target: t }]);
    }
    // then every single element-wise operation on the original and on the clone
    let follow = elem_ops(case, n, false);
    for op in follow {
        if !full && matches!(op, Op::Get { .. } | Op::Iter { .. }) {
            continue;
        }
        seqs.push(vec![Op::CloneVec { v: 0, into: SPARE }, op.clone()]);
        if let Some(op2) = retarget(&op, SPARE) {
            seqs.push(vec![Op::CloneVec { v: 0, into: SPARE }, op2]);
        }
    }
    // the empty clone accepts, destroys and clones the same values
    seqs.push(vec![
        Op::CloneEmpty { v: 0, into: SPARE },
        Op::Push { v: SPARE, src: Src::Wrapper(case.fresh_id()) },
        Op::Push { v: SPARE, src: Src::Raw(case.fresh_id()) },
        Op::Insert { v: SPARE, at: 0, src: Src::Remove(OTHER, 0) },
        Op::CloneVec { v: SPARE, into: OTHER },
        Op::Pop { v: SPARE, sink: Sink::DROP },
        Op::Clear { v: SPARE },
    ]);
    seqs
}

/// The same operation aimed at vector `to` instead of vector 0 (None when it would alias a source).
pub fn retarget(op: &Op, to: usize) -> Option<Op> {
    let mut o = op.clone();
    let uses = |s: &Src| match s {
        Src::Pop(w) | Src::HandleUnchecked(w) | Src::Remove(w, _) | Src::SwapRemove(w, _) | Src::Drained(w, _) | Src::Lazy(_, w, _, _) => *w == to,
        _ => false,
    };
    let sink_uses = |s: &Sink| matches!(s.fin, Fin::Push(w) | Fin::Insert(w, _) if w == to);
    match &mut o {
        Op::Push { v, src } | Op::Insert { v, src, .. } => {
            if uses(src) {
                return None;
            }
            *v = to
        }
        Op::Pop { v, sink } | Op::Remove { v, sink, .. } | Op::SwapRemove { v, sink, .. } => {
            if sink_uses(sink) {
                return None;
            }
            *v = to
        }
        Op::Clear { v } | Op::TPush { v, .. } | Op::TInsert { v, .. } | Op::TPop { v } | Op::TRemove { v, .. } | Op::TSwapRemove { v, .. }
        | Op::TClear { v } | Op::Get { v, .. } | Op::Iter { v, .. } => *v = to,
        _ => return None,
    }
    Some(o)
}

// ---------------------------------------------------------------------------------------------
// lazy clones (C09)

pub fn lazy_ops(case: &mut Case, n: usize, full: bool) -> Vec<Vec<Op>> {
    let mut ops = Vec::new();
    if !case.cfg.cloneable {
        return vec![];
    }
    let all_uses = [LazyUse::Push(0), LazyUse::Insert(0, 0), LazyUse::Insert(0, n), LazyUse::Splice(0, n / 2), LazyUse::Downcast, LazyUse::DropUnused, LazyUse::Push(SPARE)];
    let room = case.cfg.fixed_cap.map_or(usize::MAX, |c| c.saturating_sub(n));
    for kind in ALL_LAZY {
        for j in [0usize, OTHER_LEN - 1] {
            for depth in 1..=3u8 {
                // 0..=3 consumptions
                let mut use_lists: Vec<Vec<LazyUse>> = vec![vec![]];
                for u in all_uses {
                    use_lists.push(vec![u]);
                }
                for (i, u) in all_uses.iter().enumerate() {
                    use_lists.push(vec![*u, all_uses[(i + 1) % all_uses.len()]]);
                    if full || i % 2 == 0 {
                        use_lists.push(vec![*u, all_uses[(i + 3) % all_uses.len()], all_uses[(i + 4) % all_uses.len()]]);
                    }
                }
                for ul in use_lists {
                    let into0 = ul.iter().filter(|u| matches!(u, LazyUse::Push(0) | LazyUse::Insert(0, _) | LazyUse::Splice(0, _))).count();
                    if into0 > room {
                        continue;
                    }
                    // positions shift as earlier uses insert: keep them valid
                    let mut len0 = n;
                    let mut ok = true;
                    for u in &ul {
                        match u {
                            LazyUse::Insert(0, k) | LazyUse::Splice(0, k) => {
                                if *k > len0 {
                                    ok = false;
                                }
                                len0 += 1;
                            }
                            LazyUse::Push(0) => len0 += 1,
                            _ => {}
                        }
                    }
                    if !ok {
                        continue;
                    }
                    ops.push(Op::LazyMulti(LazyMulti { kind, w: OTHER, j, depth, uses: ul }));
                }
            }
        }
    }
    singles(ops)
}

// ---------------------------------------------------------------------------------------------
// capacity management (C10)

pub fn cap_ops(case: &mut Case, n: usize, _full: bool) -> Vec<Vec<Op>> {
    let mut ops = Vec::new();
    if !case.cfg.resizable {
        return vec![];
    }
    let m = usize::MAX;
    let mut args: Vec<usize> = (0..=n + 5).collect();
    args.extend_from_slice(&[m, m - 1, m - 2, m - 3, m - n, (m - n).wrapping_add(1), (m - n).saturating_sub(1)]);
    for typed in [false, true] {
        for a in &args {
            // arguments whose byte size is valid but enormous are not probed (an honest allocation failure aborts)
            let huge = a.checked_add(n).map_or(false, |t| t > (1 << 20));
            if !huge {
                ops.push(Op::Reserve { v: 0, n: *a, exact: false, typed });
                ops.push(Op::Reserve { v: 0, n: *a, exact: true, typed });
            }
            if *a <= n + 5 || *a >= m - 3 {
                ops.push(Op::ShrinkTo { v: 0, n: *a, typed });
            }
        }
        ops.push(Op::ShrinkToFit { v: 0, typed });
    }
    let mut seqs = singles(ops);
    // a capacity call followed by element operations that rely on the new capacity
    seqs.push(vec![Op::Reserve { v: 0, n: 2, exact: true, typed: false }, Op::TPush { v: 0, id: case.fresh_id() }, Op::Push { v: 0, src: Src::Raw(case.fresh_id()) }, Op::ShrinkToFit { v: 0, typed: false }]);
    seqs.push(vec![Op::ShrinkToFit { v: 0, typed: false }, Op::Insert { v: 0, at: 0, src: Src::Raw(case.fresh_id()) }, Op::ShrinkTo { v: 0, n: 1, typed: true }]);
    seqs.push(vec![Op::ShrinkTo { v: 0, n: 0, typed: false }, Op::Clear { v: 0 }, Op::ShrinkToFit { v: 0, typed: false }, Op::TPush { v: 0, id: case.fresh_id() }]);
    seqs
}

// ---------------------------------------------------------------------------------------------
// handles and views (C13)

pub fn handle_ops(case: &mut Case, n: usize, full: bool) -> Vec<Vec<Op>> {
    let mut ops = Vec::new();
    for at in indices(n, 1) {
        for how in [GetHow::Get, GetHow::At, GetHow::GetMut, GetHow::AtMut, GetHow::TGet, GetHow::TAt, GetHow::TGetMut, GetHow::TAtMut, GetHow::GetUnchecked, GetHow::GetUncheckedMut, GetHow::TGetUnchecked, GetHow::TGetUncheckedMut] {
            ops.push(Op::Get { v: 0, at, how });
        }
        for via in ALL_VIEWS {
            // only the panicking accessors are used with an out-of-range index
            let oob_ok = matches!(via, ViewKind::ElemMutTyped | ViewKind::ElemMutBytes | ViewKind::TypedAtMut | ViewKind::TypedSlice | ViewKind::VecBytes
                | ViewKind::ElemSwapWrapper | ViewKind::WrapperSwapElem | ViewKind::ElemSwapRaw);
            if at >= n && !oob_ok {
                continue;
            }
            let js: &[usize] = if full { &[0, 1, 2] } else { &[1] };
            for j in js {
                if *j != 1 && !matches!(via, ViewKind::ElemSwapElem | ViewKind::ElemSwapRemoveHandle) {
                    continue;
                }
                ops.push(Op::ViewWrite { v: 0, at, via, id: case.fresh_id(), w: OTHER, j: *j });
            }
        }
    }
    ops.push(Op::Get { v: 0, at: usize::MAX, how: GetHow::Get });
    ops.push(Op::Get { v: 0, at: usize::MAX, how: GetHow::GetMut });
    ops.push(Op::Get { v: 0, at: usize::MAX, how: GetHow::TGet });
    let mut seqs = singles(ops);
    // removal handles before they are consumed: inspect / mutate / swap, then every fin
    for at in indices(n, 0) {
        if at >= n {
            continue;
        }
        for pre in [Pre::Inspect, Pre::Mutate(case.fresh_id()), Pre::SwapWrapper(case.fresh_id()), Pre::SwapRaw(case.fresh_id())] {
            for fin in [Fin::Drop, Fin::Downcast, Fin::Ref, Fin::Push(OTHER), Fin::Insert(OTHER, 1)] {
                if case.cfg.fixed_cap.is_some() && matches!(fin, Fin::Push(_) | Fin::Insert(..)) && OTHER_LEN + 1 > case.cfg.fixed_cap.unwrap() {
                    continue;
                }
                seqs.push(vec![Op::Remove { v: 0, at, sink: Sink::new(pre, fin) }]);
                seqs.push(vec![Op::SwapRemove { v: 0, at, sink: Sink::new(pre, fin) }]);
                if at + 1 == n {
                    seqs.push(vec![Op::Pop { v: 0, sink: Sink::new(pre, fin) }]);
                }
            }
        }
        // a drained element before it is consumed
        for pre in [Pre::Inspect, Pre::Mutate(case.fresh_id()), Pre::SwapWrapper(case.fresh_id()), Pre::SwapRaw(case.fresh_id())] {
            seqs.push(vec![Op::Drain {
                v: 0, lo: Bound::Included(at), hi: Bound::Unbounded, typed: false,
                script: vec![Step { back: false, sink: Sink::new(pre, Fin::Downcast), skip: 0 }], end: End::Drop,
            }]);
        }
        // two writes through different views, read back through all
        for (a, b) in [(ViewKind::ElemMutBytes, ViewKind::TypedSlice), (ViewKind::VecBytes, ViewKind::ElemSwapRaw), (ViewKind::TIterMutItem, ViewKind::ElemMutTyped), (ViewKind::ElemSwapElem, ViewKind::VecBytes)] {
            seqs.push(vec![
                Op::ViewWrite { v: 0, at, via: a, id: case.fresh_id(), w: OTHER, j: 0 },
                Op::ViewWrite { v: 0, at: (at + 1) % n, via: b, id: case.fresh_id(), w: OTHER, j: 2 },
            ]);
        }
    }
    seqs
}

// ---------------------------------------------------------------------------------------------
// raw parts (C17)

pub fn rawparts_ops(case: &mut Case, n: usize, full: bool) -> Vec<Vec<Op>> {
    let mut seqs = vec![
        vec![Op::RawRoundTrip { v: 0, times: 1 }],
        vec![Op::RawRoundTrip { v: 0, times: 2 }],
        vec![Op::RawRoundTrip { v: 0, times: 3 }],
        vec![Op::RawRoundTrip { v: 0, times: 1 }, Op::RawRoundTrip { v: OTHER, times: 1 }, Op::CloneVec { v: 0, into: SPARE }, Op::RawRoundTrip { v: SPARE, times: 1 }],
    ];
    for op in elem_ops(case, n, full) {
        seqs.push(vec![Op::RawRoundTrip { v: 0, times: 1 }, op]);
    }
    for seq in range_ops(case, n, false).into_iter().step_by(7) {
        let mut s = vec![Op::RawRoundTrip { v: 0, times: 1 }];
        s.extend(seq);
        seqs.push(s);
    }
    if case.cfg.resizable {
        seqs.push(vec![Op::RawRoundTrip { v: 0, times: 1 }, Op::Reserve { v: 0, n: 3, exact: true, typed: false }, Op::RawRoundTrip { v: 0, times: 1 }, Op::ShrinkToFit { v: 0, typed: false }, Op::RawRoundTrip { v: 0, times: 2 }]);
    }
    seqs
}

// ---------------------------------------------------------------------------------------------
// forgotten handles and iterators (C07)

fn at_end_excl() -> Bound<usize> {
    Bound::Excluded(AT_LEN)
}

pub fn forget_ops(case: &mut Case, n: usize, full: bool) -> Vec<Vec<Op>> {
    let mut firsts: Vec<Op> = Vec::new();
    if n > 0 {
        firsts.push(Op::Pop { v: 0, sink: Sink::FORGET });
        firsts.push(Op::Pop { v: 0, sink: Sink::new(Pre::Mutate(case.fresh_id()), Fin::Forget) });
    }
    for at in 0..n {
        firsts.push(Op::Remove { v: 0, at, sink: Sink::FORGET });
        firsts.push(Op::SwapRemove { v: 0, at, sink: Sink::FORGET });
    }
    let k_max = if full { 3 } else { 2 };
    for a in 0..=n {
        for b in a..=n {
            let r = b - a;
            // forget the iterator after f front / b back items (each item consumed by a sink or forgotten)
            let mut scripts: Vec<Vec<Step>> = vec![vec![]];
            for f in 0..=r.min(3) {
                for bk in 0..=(r - f).min(3) {
                    if f + bk == 0 {
                        continue;
                    }
                    let mut st = Vec::new();
                    for i in 0..f + bk {
                        let back = i >= f;
                        st.push(Step { back, sink: if i % 2 == 0 { Sink::DOWNCAST } else { Sink::DROP }, skip: 0 });
                    }
                    scripts.push(st.clone());
                    // forget a yielded item
                    let mut st2 = st.clone();
                    st2[0].sink = Sink::FORGET;
                    scripts.push(st2);
                    if full && st.len() > 1 {
                        let mut st3 = st.clone();
                        let last = st3.len() - 1;
                        st3[last].sink = Sink::FORGET;
                        scripts.push(st3);
                    }
                }
            }
            for script in scripts {
                let has_forgotten_item = script.iter().any(|s| s.sink.fin == Fin::Forget);
                for end in [End::Forget, End::Drop] {
                    if end == End::Drop && !has_forgotten_item {
                        continue;
                    }
                    for typed in [false, true] {
                        firsts.push(Op::Drain { v: 0, lo: Bound::Included(a), hi: Bound::Excluded(b), typed, script: script.clone(), end });
                    }
                    for k in 0..=k_max {
                        if let Some(c) = case.cfg.fixed_cap {
                            if n - r + k > c {
                                continue;
                            }
                        }
                        let ids: Vec<_> = (0..k).map(|_| case.fresh_id()).collect();
                        firsts.push(Op::Splice { v: 0, lo: Bound::Included(a), hi: Bound::Excluded(b), typed: false, repl: Repl::Wrappers(ids.clone()), script: script.clone(), end });
                        if k == 1 {
                            firsts.push(Op::Splice { v: 0, lo: Bound::Included(a), hi: Bound::Excluded(b), typed: true, repl: Repl::Wrappers(ids.clone()), script: script.clone(), end });
                            firsts.push(Op::Splice { v: 0, lo: Bound::Included(a), hi: Bound::Excluded(b), typed: false, repl: Repl::Raws(ids), script: script.clone(), end });
                        }
                    }
                }
            }
        }
    }
    // followed by further use of the vector
    let mut seqs = Vec::new();
    for (i, f) in firsts.into_iter().enumerate() {
        let at_end = Bound::Included(AT_LEN);
        let follow: Vec<Op> = match i % 8 {
            0 => vec![Op::TPush { v: 0, id: case.fresh_id() }, Op::Pop { v: 0, sink: Sink::DOWNCAST }],
            1 => vec![Op::Push { v: 0, src: Src::Raw(case.fresh_id()) }, Op::Iter { v: 0, how: IterHow::Iter, rev: false }, Op::Clear { v: 0 }],
            2 => vec![Op::Insert { v: 0, at: 0, src: Src::Remove(OTHER, 0) }, Op::Drain { v: 0, lo: Bound::Unbounded, hi: Bound::Unbounded, typed: false, script: vec![], end: End::Drop }],
            3 => vec![Op::Remove { v: OTHER, at: 0, sink: Sink::new(Pre::None, Fin::Push(0)) }, Op::TPop { v: 0 }],
            // a second leak on top of the first one: another forgotten range iterator that has handed out an item ...
            4 => vec![
                Op::Drain { v: 0, lo: Bound::Unbounded, hi: Bound::Unbounded, typed: false, script: vec![Step { back: false, sink: Sink::DROP, skip: 0 }], end: End::Forget },
                Op::TPush { v: 0, id: case.fresh_id() },
                Op::Iter { v: 0, how: IterHow::Iter, rev: false },
            ],
            // ... or another forgotten removal handle
            5 => vec![Op::Pop { v: 0, sink: Sink::FORGET }, Op::Push { v: 0, src: Src::Raw(case.fresh_id()) }, Op::Iter { v: 0, how: IterHow::TIter, rev: false }, Op::Clear { v: 0 }],
            // appending through splice (start == len, whatever the leak left)
            6 => vec![
                Op::Splice { v: 0, lo: at_end, hi: Bound::Unbounded, typed: false, repl: Repl::Wrappers(vec![case.fresh_id(), case.fresh_id()]), script: vec![], end: End::Drop },
                Op::Iter { v: 0, how: IterHow::Iter, rev: false },
                Op::TPop { v: 0 },
            ],
            _ => vec![
                Op::Splice { v: 0, lo: Bound::Unbounded, hi: Bound::Unbounded, typed: true, repl: Repl::Wrappers(vec![case.fresh_id()]), script: vec![Step { back: true, sink: Sink::DOWNCAST, skip: 0 }], end: End::Forget },
                Op::Splice { v: 0, lo: at_end, hi: at_end_excl(), typed: false, repl: Repl::Wrappers(vec![case.fresh_id()]), script: vec![], end: End::Drop },
                Op::Iter { v: 0, how: IterHow::Iter, rev: true },
            ],
        };
        let mut s = vec![f];
        if case.cfg.fixed_cap.is_none() {
            s.extend(follow);
        } else {
            s.push(Op::Iter { v: 0, how: IterHow::TIter, rev: true });
        }
        seqs.push(s);
    }
    seqs
}

// ---------------------------------------------------------------------------------------------
// fault enumeration (C06)

/// Follow-up use of every vector after a fault: push, insert, iterate, pop, (clone), clear.
fn follow_up(ctx: &mut Ctx, case: &mut Case) {
    for v in 0..NVECS {
        let len = case.model.vecs[v].len();
        let room = case.cfg.fixed_cap.map_or(true, |c| len + 2 <= c);
        let mut ops: Vec<Op> = Vec::new();
        if room {
            ops.push(Op::TPush { v, id: case.fresh_id() });
            ops.push(Op::Insert { v, at: 0, src: Src::Raw(case.fresh_id()) });
        }
        ops.push(Op::Iter { v, how: IterHow::Iter, rev: false });
        ops.push(Op::Pop { v, sink: Sink::DOWNCAST });
        if len > 0 {
            ops.push(Op::Remove { v, at: 0, sink: Sink::DROP });
        }
        if case.cfg.cloneable && v == 0 {
            ops.push(Op::CloneVec { v: 0, into: SPARE });
        }
        if v == 1 {
            ops.push(Op::Clear { v });
        }
        for op in ops {
            case.step(ctx, &op);
            if case.failed {
                return;
            }
        }
    }
}

pub fn fault_enum(
    ctx: &mut Ctx,
    family: &str,
    cfgs: &[CfgEntry],
    l: usize,
    gen: &dyn Fn(&mut Case, usize, bool) -> Vec<Vec<Op>>,
    stride: usize,
) {
    if ctx.sampled && ctx.only.is_none() {
        return fault_sampled(ctx, family, cfgs, l, gen);
    }
    fault_enum_lens(ctx, family, cfgs, &|cfg| lengths(cfg, l, false), gen, stride)
}

/// The operations that touch many elements at once (destroy, clone or move them in bulk), for the fault sweep at lengths
/// beyond the small scope: a panic at the 9th, 17th ... user call of one operation.
pub fn bulk_ops(case: &mut Case, n: usize, _full: bool) -> Vec<Vec<Op>> {
    let mut ops = vec![
        Op::Clear { v: 0 },
        Op::TClear { v: 0 },
        // the vector itself is dropped (replaced by an empty clone of another one)
        Op::CloneEmpty { v: OTHER, into: 0 },
        Op::Drain { v: 0, lo: Bound::Unbounded, hi: Bound::Unbounded, typed: false, script: vec![], end: End::Drop },
        Op::Drain { v: 0, lo: Bound::Unbounded, hi: Bound::Unbounded, typed: true, script: vec![], end: End::Drop },
    ];
    if case.cfg.cloneable {
        ops.push(Op::CloneVec { v: 0, into: SPARE });
    }
    if n >= 4 {
        let front = vec![Step { back: false, sink: Sink::DOWNCAST, skip: 0 }];
        ops.push(Op::Drain { v: 0, lo: Bound::Included(1), hi: Bound::Excluded(n - 1), typed: false, script: front.clone(), end: End::Drop });
        ops.push(Op::Drain { v: 0, lo: Bound::Included(1), hi: Bound::Excluded(n - 1), typed: false, script: vec![], end: End::Count });
        ops.push(Op::Splice { v: 0, lo: Bound::Included(1), hi: Bound::Excluded(n - 1), typed: false, repl: Repl::Wrappers(vec![case.fresh_id(), case.fresh_id()]), script: vec![], end: End::Drop });
        ops.push(Op::Splice { v: 0, lo: Bound::Included(1), hi: Bound::Excluded(n - 1), typed: true, repl: Repl::Wrappers(vec![case.fresh_id()]), script: front, end: End::Drop });
    }
    singles(ops)
}

pub fn fault_enum_lens(
    ctx: &mut Ctx,
    family: &str,
    cfgs: &[CfgEntry],
    lens_of: &dyn Fn(&CfgEntry) -> Vec<usize>,
    gen: &dyn Fn(&mut Case, usize, bool) -> Vec<Vec<Op>>,
    stride: usize,
) {
    if ctx.sampled && ctx.only.is_none() {
        return;
    }
    ctx.begin_family(family);
    let full = ctx.thorough();
    for cfg in cfgs {
        if !ctx.wants_cfg(cfg) || !cfg.elem.tracked {
            continue;
        }
        ctx.begin_cfg(cfg);
        for len in lens_of(cfg) {
            for st in states_for(cfg, len) {
                if cfg.fixed_cap.map_or(false, |c| c < OTHER_LEN) {
                    continue;
                }
                let seqs = {
                    let mut scratch = arrange(ctx, cfg, st);
                    let o = gen(&mut scratch, len, full);
                    scratch.finish(ctx);
                    o
                };
                for (si, seq) in seqs.iter().enumerate() {
                    if stride > 1 && si % stride != 0 {
                        continue;
                    }
                    let op = seq.last().unwrap();
                    if !ctx.take_sig(cfg, &opsig(op)) {
                        continue;
                    }
                    let ordinal = ctx.ordinal - 1;
                    // 1. fault-free run, counting user-code invocations inside the operation
                    let n_calls = {
                        let mut case = arrange(ctx, cfg, st);
                        case.desc = format!("{}|{}|#{}|fault-free", cfg.name, st.label(), ordinal);
                        for pre in &seq[..seq.len() - 1] {
                            case.step_quiet(ctx, pre);
                        }
                        reg::fault_count_begin();
                        let exp = case.model.apply(op);
                        let out = case.rig.exec(op);
                        let (mut n, _, _) = reg::fault_end();
                        if out.panicked || exp.out.panicked || out.unsupported {
                            // a panic the property itself expects is never combined with an injected one
                            // (a second panic while unwinding aborts by language rule)
                            n = 0;
                            ctx.stats.bump("skipped_expected_panic_or_unsupported", 1);
                        }
                        case.leaks_ok = true;
                        for v in 0..NVECS {
                            case.resync(v);
                        }
                        case.finish(ctx);
                        n
                    };
                    ctx.stats.bump("user_code_calls_enumerated", n_calls);
                    // 2. the k-th invocation panics
                    for k in 1..=n_calls {
                        run_fault_case(ctx, cfg, st, seq, k, n_calls, &format!("#{ordinal}"));
                    }
                }
            }
        }
    }
}

/// One fault-injected execution: the `k`-th user-code invocation inside `op` panics.
fn run_fault_case(ctx: &mut Ctx, cfg: &CfgEntry, st: VState, seq: &[Op], k: u64, n_calls: u64, tag: &str) {
    let op = seq.last().unwrap();
    let mut case = arrange(ctx, cfg, st);
    case.leaks_ok = true;
    case.check_clones = false;
    case.desc = format!("{}|{}|{tag}|fault@{k}/{n_calls}", cfg.name, st.label());
    for pre in &seq[..seq.len() - 1] {
        case.step_quiet(ctx, pre);
    }
    reg::fault_arm(k);
    let out = case.rig.exec(op);
    let (_, fired, site) = reg::fault_end();
    let desc = format!("{} | {op} [panic injected in {}]", case.desc, site.unwrap_or("-"));
    if fired {
        ctx.stats.bump("faults_injected", 1);
        ctx.stats.bump(&format!("faults_in_{}", site.unwrap_or("?")), 1);
        if !out.panicked {
            case.failed = true;
            ctx.report(&cfg.name, "harness", &opsig(op), "injected panic did not propagate".into(), &desc);
        }
    }
    for v in 0..NVECS {
        case.resync(v);
    }
    let d0 = case.desc.clone();
    case.desc = desc.clone();
    case.post_check(ctx, &opsig(op), &desc, &[0, 1, 2], None);
    if !case.failed {
        case.desc = format!("{desc} | follow-up");
        follow_up(ctx, &mut case);
    }
    case.desc = d0;
    case.finish(ctx);
    record(ctx, cfg, &st.label(), std::slice::from_ref(op), fired, &desc);
}

/// Tool-mode variant of `fault_enum`: random (state, operation, k) triples.
pub fn fault_sampled(ctx: &mut Ctx, family: &str, cfgs: &[CfgEntry], l: usize, gen: &dyn Fn(&mut Case, usize, bool) -> Vec<Vec<Op>>) {
    ctx.begin_family(family);
    let cfgs: Vec<&CfgEntry> = cfgs.iter().filter(|c| ctx.wants_cfg(c) && c.elem.tracked && c.fixed_cap.map_or(true, |c| c >= OTHER_LEN)).collect();
    if cfgs.is_empty() {
        return;
    }
    let mut rng = Rng::new(ctx.seed ^ crate::util::fnv(family) ^ ((ctx.shard as u64) << 40));
    let budget = ctx.quota.max(1);
    let mut done = 0u64;
    let mut round = ctx.shard;
    let mut attempts = 0;
    while done < budget && attempts < budget * 10 && ctx.per_sig.len() < ctx.max_viols {
        attempts += 1;
        let cfg = cfgs[round % cfgs.len()];
        round += 1;
        ctx.stats.cfgs.insert(cfg.name.clone());
        let lens = lengths(cfg, l, false);
        let len = *rng.pick(&lens);
        let sts = states_for(cfg, len);
        let st = *rng.pick(&sts);
        let seqs = {
            let mut scratch = arrange(ctx, cfg, st);
            let o = gen(&mut scratch, len, false);
            scratch.finish(ctx);
            o
        };
        if seqs.is_empty() {
            continue;
        }
        for _ in 0..3 {
            let k = rng.below(seqs.len());
            let seq = &seqs[k];
            let op = seq.last().unwrap();
            ctx.breadcrumb(&format!("{}|{}", cfg.name, st.label()), k as u64);
            let n_calls = {
                let mut case = arrange(ctx, cfg, st);
                for pre in &seq[..seq.len() - 1] {
                    case.step_quiet(ctx, pre);
                }
                reg::fault_count_begin();
                let exp = case.model.apply(op);
                let out = case.rig.exec(op);
                let (mut n, _, _) = reg::fault_end();
                if out.panicked || exp.out.panicked || out.unsupported {
                    n = 0;
                }
                case.leaks_ok = true;
                for v in 0..NVECS {
                    case.resync(v);
                }
                case.finish(ctx);
                n
            };
            if n_calls == 0 {
                continue;
            }
            ctx.stats.bump("user_code_calls_enumerated", n_calls);
            let kk = 1 + rng.below(n_calls as usize) as u64;
            run_fault_case(ctx, cfg, st, seq, kk, n_calls, &format!("sample#{k}"));
            done += 1;
            if done >= budget {
                break;
            }
        }
    }
}

/// Replacement iterators that misreport their length (fault-free otherwise).
pub fn lying_ops(case: &mut Case, n: usize, full: bool) -> Vec<Vec<Op>> {
    let mut ops = Vec::new();
    let k_max = if full { 4 } else { 3 };
    for a in 0..=n {
        for b in a..=n {
            for k in 0..=k_max {
                // constant lies of several magnitudes; lies that start with the second len() call (40+d); lies on the first call only (80+d)
                for delta in [-2i8, -1, 1, 2, -5, 5, 7, 45, 38, 42, 85, 78, 83, LIE_HUGE] {
                    if (a + 2 * b + k) % 2 == 1 && delta.abs() > 2 {
                        continue;
                    }
                    // the gross lie: only where the byte size cannot be a valid allocation request (a valid but enormous one
                    // aborts the process when the allocator refuses it), i.e. not for one-byte elements, and not on fixed backends; not for
                    // elements that own heap memory either (the refused splice may leak its tail: a real leak for the leak detectors)
                    if delta == LIE_HUGE && (case.cfg.elem.size < 2 || case.cfg.elem.heap || case.cfg.fixed_cap.is_some() || k > 1) {
                        continue;
                    }
                    if let Some(c) = case.cfg.fixed_cap {
                        let reported = (k as isize + lie_decode(delta).0).max(0) as usize;
                        if n - (b - a) + k.max(reported) > c {
                            continue;
                        }
                    }
                    for typed in [false, true] {
                        let ids: Vec<_> = (0..k).map(|_| case.fresh_id()).collect();
                        let script = if (a + b + k) % 3 == 0 { vec![Step { back: false, sink: Sink::DROP, skip: 0 }] } else { vec![] };
                        ops.push(Op::Splice { v: 0, lo: Bound::Included(a), hi: Bound::Excluded(b), typed, repl: Repl::Lying(ids, delta), script, end: End::Drop });
                    }
                }
            }
        }
    }
    singles(ops)
}

pub fn lying_enum(ctx: &mut Ctx, family: &str, cfgs: &[CfgEntry], l: usize) {
    if ctx.sampled && ctx.only.is_none() {
        // leaks are expected with lying iterators: the sampled runner is told so through `leaks_ok_default`
        ctx.leaks_ok_default = true;
        sampled(ctx, family, cfgs, l, false, &lying_ops);
        ctx.leaks_ok_default = false;
        return;
    }
    ctx.begin_family(family);
    let full = ctx.thorough();
    for cfg in cfgs {
        if !ctx.wants_cfg(cfg) {
            continue;
        }
        ctx.begin_cfg(cfg);
        for len in lengths(cfg, l, false) {
            for st in states_for(cfg, len) {
                if cfg.fixed_cap.map_or(false, |c| c < OTHER_LEN) {
                    continue;
                }
                let seqs = {
                    let mut scratch = arrange(ctx, cfg, st);
                    let o = lying_ops(&mut scratch, len, full);
                    scratch.finish(ctx);
                    o
                };
                for seq in seqs.iter() {
                    if !ctx.take_sig(cfg, &opsig(&seq[0])) {
                        continue;
                    }
                    let op = &seq[0];
                    let mut case = arrange(ctx, cfg, st);
                    case.leaks_ok = true;
                    case.check_clones = false;
                    case.desc = format!("{}|{}|#{}", cfg.name, st.label(), ctx.ordinal - 1);
                    let desc = format!("{} | {op}", case.desc);
                    let (_o, _e) = case.step(ctx, op);
                    ctx.stats.bump("lying_iterators", 1);
                    if !case.failed {
                        case.desc = format!("{desc} | follow-up");
                        follow_up(ctx, &mut case);
                    }
                    case.finish(ctx);
                    record(ctx, cfg, &st.label(), seq, true, &desc);
                }
            }
        }
    }
}
