"""Human-written MANIFEST texts per property."""
HOOK_COMMITS = ["d1e2dd7"]
NOT_APPLICABLE = {}
META = {
    "C01": dict(
        text="Differential runtime monitoring against std::vec::Vec: every element-wise operation instance from every abstract state up to the length bound "
             "(small-scope exhaustive, incl. the copy_bytes threshold lengths of every stride) on 69 configurations, plus seeded random histories over three vectors, "
             "on the production-flags build, the debug build and (thorough) the optimised build. Exploration, not proof: bounded by L, the configuration table and the seeds.",
        design_ref="DESIGN.md 3/C01, 1.3, 1.7",
        note="Trusted: std Vec as reference semantics; the element types' own probe/canary; the harness's mirror of each call on the model. Assumes behaviour depends on the state only through (len, capacity class, dirty spare) for the exhaustive part.",
        technique="differential runtime monitor (Vec reference model) over enumerated + random executions",
    ),
    "C02": dict(
        text="Differential runtime monitoring of drain/splice against Vec::drain/Vec::splice: every range in every RangeBounds form incl. invalid ranges at the boundary and at usize::MAX, "
             "every next/next_back consumption string, per-item sinks, replacement lengths 0..=K from every value-source kind, erased and typed, from every abstract state on 69 configurations, "
             "plus random range histories; production-flags and debug builds (D15 exists only without overflow checks). Exploration, bounded by L, K and the table.",
        design_ref="DESIGN.md 3/C02",
        note="Trusted: Vec::drain/splice semantics as mirrored by the model (hvcore::model), element canaries. A replacement iterator that is itself a drain of another vector is consumed/dropped by the caller side as in Vec.",
        technique="differential runtime monitor (Vec::drain/splice model) over enumerated ranges x consumption scripts",
    ),
    "C03": dict(
        text="Identity-level accounting at run time: every element instance is registered by its own constructor/Clone/Drop; after every step of every family (element, range, clone, lazy, mixed random histories over three "
             "vectors exchanging elements) the live-instance multiset must equal what is reachable through the vectors, a destructor on a non-live or malformed element is a violation, and at the end nothing may stay alive. "
             "By-value multiset accounting for no-drop types and by-count for zero-sized types. Exploration level.",
        design_ref="DESIGN.md 3/C03, 1.2",
        note="Trusted: the registry (thread-local, updated only from the element types' own code); ids of 8/16-bit element types are recycled, so for those accounting is by multiset. Leaks are tolerated only where the property permits unspecified results (capacity-overflow panic of a fixed backend).",
        technique="conservation / exactly-once monitor over Drop+Clone event log (identity registry)",
    ),
    "C08": dict(
        text="clone / clone_empty / clone_empty_in on every Cloneable configuration and backend pair from every state, followed by each single operation on original and clone; monitors: per-id Clone-event log, Vec model of "
             "both vectors (independence), distinct storage base pointers, element_typeid/layout of the result. Exploration level.",
        design_ref="DESIGN.md 3/C08",
        note="Trusted: the model; clone events are observed through the element type's Clone impl. clone_empty_in onto inline backends is exercised for element alignment <= 8 only (see C12 finding).",
        technique="differential monitor + Clone-event log + storage-identity check",
    ),
    "C09": dict(
        text="Lazy clones of all six cloneable source kinds x chain depth 1..3 x 0..3 consumptions of five kinds from every state: Clone/Drop event counters must not move while lazy clones are created, copied or dropped, "
             "and each consumption must produce exactly one Clone event of the original source id with a balanced registry afterwards. Exploration level.",
        design_ref="DESIGN.md 3/C09",
        note="Trusted: registry event counters; only drop-glue layouts are used (the quantifier says so), so a bitwise copy shows as a registry imbalance / double destroy.",
        technique="event-count monitor (Clone/Drop) around lazy-clone lifecycle",
    ),
    "C10": dict(
        text="reserve/reserve_exact/shrink_to_fit/shrink_to, erased and typed, with arguments 0..=len+5 and at the usize::MAX boundary from every (len, capacity) state on Heap and the instrumented backend, plus capacity "
             "calls inside random histories: postconditions on capacity(), storage base pointer, backend/allocator event counters and Drop/Clone counters checked at run time; len <= capacity after every step of every family. Exploration level.",
        design_ref="DESIGN.md 3/C10",
        note="Arguments whose byte size is valid but enormous are not probed (honest allocation failure aborts). Amortisation is checked with a loose logarithmic bound on reallocation counts.",
        technique="postcondition monitors on capacity/base pointer + backend and allocator event counters",
    ),
    "C14": dict(
        text="Every iterator kind driven by all next/next_back choice strings up to the bound plus six alternating calls after exhaustion; len() and size_hint() read before every step; clones of shared iterators taken mid-way and drained "
             "after the original advanced. Compared against the model's cursor pair. Exploration level (exhaustive in the choice strings for n <= 7).",
        design_ref="DESIGN.md 3/C14",
        note="Trusted: the model. Harness loops are bounded by n + 6, never while-let on a library iterator.",
        technique="trace monitor over iterator events (len/size_hint/yield) vs cursor-pair model",
    ),
    "C05": dict(
        text="The real operations run on a user-defined backend that relocates on every capacity change, surrounds the payload with guard zones, poisons fresh and released storage and quarantines released blocks, and on the built-in Heap under a "
             "global allocator doing the same; guard/quarantine scans and element canaries after every step, lifecycle log (one build per vector with the element layout, release after the elements). The same workloads are replayed under Miri "
             "(both copy paths) and AddressSanitizer where those modes are listed in the evidence. Exploration level.",
        design_ref="DESIGN.md 3/C05, 1.4, 1.5, 1.8",
        note="Guard zones see adjacent overruns and writes to released blocks; reads of stale/uninitialised bytes are seen when the bytes reach an element probe (canary) or a tool mode. Borrow-model (Stacked/Tree Borrows) reports are outside the property.",
        technique="instrumented backend + instrumented allocator (guard zones, poison, relocate-always, quarantine) and UB interpreters/sanitizers over the same executions",
    ),
    "C07": dict(
        text="mem::forget of removal handles, of drain/splice iterators at every consumption stage and of yielded items, from every state and sub-range, then further use and drop; monitors: prefix preservation, "
             "no resurrected/duplicated/destroyed-twice element (registry + canaries), follow-up operations against the re-synchronised model. Exploration level.",
        design_ref="DESIGN.md 3/C07",
        note="What remains after the affected index is unspecified by the property; the monitor only requires it to consist of former elements, each at most once and alive.",
        technique="registry + prefix monitor over forget-at-every-stage enumeration",
    ),
    "C11": dict(
        text="All element, range, clone and lazy families on Stack/StackN vectors up to and one past their capacity, with a capacity-bounded Vec model (beyond capacity: panic and unchanged contents), the fixed capacity() value checked after every step, "
             "and the instrumented global allocator counting allocations made by the thread during every library call (must be zero). Exploration level.",
        design_ref="DESIGN.md 3/C11",
        note="Allocations made while a panic is in flight are the panic runtime's and are not counted. Inline backends are exercised with element alignment <= 8 (storage alignment is C12's subject).",
        technique="capacity-bounded differential monitor + per-thread allocation counter in the global allocator",
    ),
    "C13": dict(
        text="Bounds-checked accessors at every index incl. len, len+1 and usize::MAX with the reports of every handle (type id, size, byte address and length) checked; every element overwritten or swapped through 15 kinds of view/handle and read back through all other views "
             "(typed slice, erased get, iterator, byte view) after every step. Exploration level.",
        design_ref="DESIGN.md 3/C13",
        note="Byte-level writes are performed as a byte swap with a fresh value so the identity registry stays exact.",
        technique="cross-view coherence monitor (write through one view, read through all others) + handle self-report checks",
    ),
    "C17": dict(
        text="into_raw_parts / RawParts::clone / from_raw_parts round trips (1..3) from every state on every heap configuration and all eight constraint sets, before every element-wise operation and inside random histories: all public fields compared with the live vector, "
             "no Drop/Clone event and no allocator event across the trip, identical base pointer and capacity after rebuilding, model and registry/allocator balance afterwards. Exploration level.",
        design_ref="DESIGN.md 3/C17",
        note="The zero-capacity Empty backend is covered by a separate probe (empty vectors only, by construction).",
        technique="field-by-field comparison + event-counter monitors across the round trip",
    ),
    "C18": dict(
        text="Heap vectors of every non-allocating layout under the instrumented global allocator: block count vs vectors with capacity x size > 0, containment/size/alignment of each vector's storage in a live block, layout equality on every realloc/dealloc, "
             "no invalid layout reaching the allocator, zero attributed blocks at the end; checked after every step of the element/range/capacity/clone families and random histories. Exploration level.",
        design_ref="DESIGN.md 3/C18, 1.5",
        note="Attribution: allocations made by the thread inside a library call and outside harness/user scopes; reallocations/deallocations are attributed by block identity.",
        technique="allocator event log (side table keyed by pointer) checked online after every operation",
    ),
    "C06": dict(
        text="Fault enumeration at run time: for every operation instance of the element/range/clone/lazy families from every state up to the bound, each user-code invocation inside the operation (element Drop, element Clone, replacement-iterator next) "
             "is made to panic in turn (k = 1..N, N measured on a fault-free run), and every splice is also run with replacement iterators misreporting len() by -2..=+2; after each fault the registry, canaries, guard scans and a follow-up usage sequence decide. "
             "fault_enumeration: complete over the enumerated crash points within the bound, not over unbounded histories.",
        design_ref="DESIGN.md 3/C06, 1.6",
        note="One injected panic per execution; operations that the property expects to panic anyway are not combined with an injected fault (a second panic while unwinding aborts by language rule). Leaks are permitted and only counted.",
        technique="fault injection at every user-code call site (counted then enumerated) + registry/canary/guard monitors + continued differential use",
    ),
    "C04": dict(
        text="All ordered pairs of distinct same-layout element types (and the matching pairs as controls) offered through every checked entry point and value-source kind from every state; the run-time outcome (panic or not, Option answer), the vector before/after, "
             "and the registry (a rejected value is destroyed exactly once, nothing duplicated) decide. A run without accepted controls is not 'held'. Exploration level.",
        design_ref="DESIGN.md 3/C04",
        note="Includes a user-defined AnyValue whose value_typeid() is a run-time field. After a rejected splice only validity is required (registry + continued use).",
        technique="negative/positive differential probes over type pairs with registry accounting",
    ),
    "C12": dict(
        text="Address arithmetic on every byte/slice/spare view for every layout, backend and (len, capacity) state, with stack-backed vectors constructed in place at every admissible offset of an aligned arena; alignment of the storage pointer also when empty; "
             "values written through spare views + set_len read back. Known finding D10 (inline storage misaligned for alignment > 8 at some placements) is reported as KNOWN-FINDING per exact (backend, alignment) signature. Exploration level.",
        design_ref="DESIGN.md 3/C12, 0.1 (D10)",
        note="At a misaligned placement the harness records the signature and performs no element access there (it would be UB in the harness itself).",
        technique="address/length arithmetic monitor over placements x layouts x states",
    ),
    "C15": dict(
        text="The Send/Sync/Clone truth table of every public vector, view, handle and iterator type over 8 constraint sets x 9 backends x 5 element classes is printed by a running program and checked against the property's formulas; "
             "~400 generated hostile programs with controls are built in one batch (a program that must not exist and builds is the refuting event); the admitted cross-thread workload (vectors through channels, shared readers, "
             "handles moved into scoped threads, lazy clones into per-thread vectors) is executed under Miri's data-race detector over several schedules. Exploration level.",
        design_ref="DESIGN.md 3/C15, 4",
        note="Trusted base: rustc's trait solver decides accept/reject for the table and the hostile programs (a compile-time rejection has no execution to monitor; see DESIGN.md 4). For handles the property is one-directional ('only when'): over-strict handles are not flagged.",
        technique="runtime-evaluated trait table + hostile-program construction with controls + Miri data-race detection on the admitted workload",
    ),
    "C19": dict(
        text="The stack-only workload (element, range, clone, lazy families, histories, SIZE/N grid) is executed by the harness built against any_vec with and without default features: the Vec model must hold in both, a digest of every operation/outcome/snapshot "
             "per configuration must agree across the builds, and the instrumented global allocator must see no library allocation; the no-default rlib must not depend on alloc or reference allocator symbols, and any_vec::mem::Heap must not be nameable there. Exploration level.",
        design_ref="DESIGN.md 3/C19",
        note="'compiles without the alloc crate' and 'offers no heap backend' are build-artifact observations (rustc -Zls=root, nm -u, a compile probe with its control), complemented by the run-time allocation counter.",
        technique="cross-build differential digest + allocation counter + artifact inspection",
    ),
    "C16": dict(
        text="~300 systematically generated conflict programs (every handle-producing method x every conflicting-action class) and ~40 controls: a conflict program that builds is the refuting event and is then executed under Miri to attach the UB report as witness; "
             "controls must build, run natively and run clean under Miri. 21 admitted programs of the typed-view / ElementPointer::downcast_mut / IterMut::clone family are recorded as known findings (D12) by exact signature; any other admitted program is a VIOLATION. Exploration level.",
        design_ref="DESIGN.md 3/C16, 4, 0.1 (D12)",
        note="Trusted base: rustc's borrow checker decides accept/reject (a program that does not compile has no execution to monitor; see DESIGN.md 4). Any error attributed to the probe's span counts as rejected; error codes are recorded in the evidence.",
        technique="hostile-program construction with controls; admitted programs and controls executed under Miri",
    ),
}
