"""C19: the no-`alloc` build is heap-free and behaves exactly like the default build on stack backends.

Run-time part: the stack-only workload (element / range / clone / lazy families, histories, SIZE/N grid) is executed by the
harness built with and without default features; a per-configuration digest of every operation, outcome and snapshot must agree,
every model comparison must hold in both builds, and the instrumented global allocator must count zero library allocations.
Build-artifact part: the any_vec rlib of the no-default build must not depend on the `alloc` crate nor reference __rust_alloc*,
and a program naming any_vec::mem::Heap must not build in that configuration (the Stack control must)."""
import glob
import json
import os
import subprocess
import sys
import time
from concurrent.futures import ThreadPoolExecutor

from . import common


def _newest(pattern):
    xs = glob.glob(pattern)
    return max(xs, key=os.path.getmtime) if xs else None


def run(prop, tier, seed, root):
    sys.path.insert(0, root)
    import check as drv
    from checks_table import MODES
    t0 = time.time()
    out = dict(evaluations=0, distinct_nontrivial=0, samples=[], counters={}, violations=[], inconclusive=None)
    viols = out["violations"]
    res = {}
    ncpu = os.cpu_count() or 4
    distinct = set()
    for mode in ("rel", "nodefault"):
        ok, binary, log, dt = drv.build(mode)
        if not ok:
            # a library that does not build without default features violates the property outright
            if mode == "nodefault":
                viols.append(dict(kind="nodefault-build", sig="nodefault-build:harness", detail="the stack-only workload does not build against any_vec with default-features = false: " + log[-1500:],
                                  desc="cargo build --no-default-features", cfg="", family="build", ordinal=0, seed=seed))
                return out
            out["inconclusive"] = "default build failed"
            return out
        args = ["--prop", "C19", "--tier", tier, "--seed", str(seed), "--digest"]
        with ThreadPoolExecutor(max_workers=ncpu) as ex:
            rs = list(ex.map(lambda s: drv.run_shard(mode, binary, args, s, ncpu, 3600, "C19"), range(ncpu)))
        digests, evals, counters = {}, 0, {}
        for r in rs:
            if r["timed_out"]:
                out["inconclusive"] = f"mode {mode} shard {r['shard']} hit the watchdog"
                return out
            got = False
            for line in r["out"].splitlines():
                if not line.startswith("{"):
                    continue
                d = json.loads(line)
                if d.get("t") == "viol":
                    d["mode"] = mode
                    viols.append(d)
                elif d.get("t") == "distinct":
                    distinct.update((mode, h) for h in d["h"])
                elif d.get("t") == "stat":
                    got = True
                    evals += d["evaluations"]
                    for k, v in d.get("digests", {}).items():
                        digests[k] = (digests.get(k, 0) + v) & 0x000fffffffffffff
                    for k, v in d.get("counters", {}).items():
                        counters[k] = counters.get(k, 0) + v
                    out.setdefault("cfgs", [])
                    out.setdefault("opsigs", [])
                    out["cfgs"] = sorted(set(out["cfgs"]) | {f"{mode}:{c}" for c in d.get("cfgs", [])})
                    out["opsigs"] = sorted(set(out["opsigs"]) | set(d.get("opsigs", [])))
                    for s in d.get("samples", [])[:2]:
                        if len(out["samples"]) < 10:
                            out["samples"].append(f"[{mode}] {s}")
            if not got or r["rc"] != 0:
                viols.append(dict(kind="crash", sig=f"crash:{mode}", detail=f"shard died (rc={r['rc']}) in [{r['crumb']}]: {(r['err'] or '')[-800:]}",
                                  desc=r["crumb"], cfg="", family="", ordinal=0, seed=seed, mode=mode))
        res[mode] = dict(digests=digests, evaluations=evals, counters=counters)
        out["evaluations"] += evals
        for k, v in counters.items():
            out["counters"][f"{mode}:{k}"] = v
    a, b = res["rel"]["digests"], res["nodefault"]["digests"]
    compared = 0
    for cfg in sorted(set(a) | set(b)):
        compared += 1
        if a.get(cfg) != b.get(cfg):
            viols.append(dict(kind="digest-mismatch", sig="digest-mismatch:stack-workload",
                              detail=f"observation digest of {cfg} differs between the default build ({a.get(cfg)}) and the no-default-features build ({b.get(cfg)})",
                              desc=cfg, cfg=cfg, family="digest", ordinal=0, seed=seed))
    out["counters"]["configurations_compared"] = compared
    if compared == 0:
        out["inconclusive"] = "no digests produced"
    out["distinct_nontrivial"] = len(distinct)
    # --- build artifacts
    nd = _newest(os.path.join(common.TARGET, "nodefault", "relflags", "deps", "libany_vec-*.rlib"))
    df = _newest(os.path.join(common.TARGET, "rel", "relflags", "deps", "libany_vec-*.rlib"))

    def deps_of(rlib):
        env = dict(os.environ)
        env["RUSTC_BOOTSTRAP"] = "1"  # same (stable) compiler that built the rlib; -Z flag only
        p = subprocess.run(["rustc", "-Zls=root", rlib], stdout=subprocess.PIPE, stderr=subprocess.STDOUT, text=True, env=env)
        names = []
        for line in p.stdout.splitlines():
            line = line.strip()
            # "1 core-<hash> ..." style lines
            parts = line.split()
            if len(parts) >= 2 and parts[0].isdigit():
                names.append(parts[1].split("-")[0])
        return names, p.stdout

    def undefined_alloc(rlib):
        p = subprocess.run(["nm", "-u", rlib], stdout=subprocess.PIPE, stderr=subprocess.DEVNULL, text=True)
        return sorted({l.split()[-1] for l in p.stdout.splitlines() if "__rust_alloc" in l or "__rust_dealloc" in l or "__rust_realloc" in l or "__rust_alloc_zeroed" in l
                       or "__rustc" in l and ("alloc" in l.split()[-1])})

    if nd and df:
        dn, raw_n = deps_of(nd)
        dd, raw_d = deps_of(df)
        un, ud = undefined_alloc(nd), undefined_alloc(df)
        out["counters"]["rlib_checks"] = 2
        out["samples"].append(f"no-default rlib deps={dn} undefined alloc symbols={un}; default rlib deps={dd} undefined alloc symbols={ud}")
        if "core" not in dn or "alloc" not in dd or not ud:
            out["inconclusive"] = "control failed: the default build's rlib shows no dependency on alloc, so the observation cannot separate the builds"
        if "alloc" in dn:
            viols.append(dict(kind="nodefault-alloc", sig="nodefault-alloc:crate-dependency", detail=f"the no-default-features any_vec rlib lists the alloc crate among its dependencies: {dn}",
                              desc=nd, cfg="", family="artifact", ordinal=0, seed=seed))
        if un:
            viols.append(dict(kind="nodefault-alloc", sig="nodefault-alloc:undefined-symbols", detail=f"the no-default-features any_vec rlib references allocator symbols: {un}",
                              desc=nd, cfg="", family="artifact", ordinal=0, seed=seed))
    else:
        out["inconclusive"] = "any_vec rlib not found in the target directories"
    # --- Heap must not exist without the feature
    heap = common.write_crate("c19_heap", "use any_vec::AnyVec;\nuse any_vec::mem::Heap;\nfn main() { let v: AnyVec<dyn any_vec::traits::None, Heap> = AnyVec::new::<u8>(); let _ = v.len(); }\n", default_features=False)
    stack = common.write_crate("c19_stack", "use any_vec::AnyVec;\nuse any_vec::mem::Stack;\nuse any_vec::any_value::AnyValueWrapper;\nfn main() { let mut v: AnyVec<dyn any_vec::traits::None, Stack<64>> = AnyVec::new::<u8>(); v.push(AnyValueWrapper::new(1u8)); assert_eq!(v.len(), 1); }\n", default_features=False)
    rc_h, dg_h, _ = common.cargo_json(heap, "probes-c19")
    rc_s, dg_s, err_s = common.cargo_json(stack, "probes-c19")
    out["counters"]["compile_probes"] = 2
    out["evaluations"] += 2
    if rc_s != 0:
        viols.append(dict(kind="nodefault-build", sig="nodefault-build:stack-control", detail="a stack-only program does not build with default-features = false: " + "; ".join(d["message"] for d in dg_s if d["level"] == "error")[:600],
                          desc="c19_stack", cfg="", family="probe", ordinal=0, seed=seed))
    if rc_h == 0:
        viols.append(dict(kind="nodefault-alloc", sig="nodefault-alloc:heap-available", detail="a program naming any_vec::mem::Heap builds with default-features = false",
                          desc="c19_heap", cfg="", family="probe", ordinal=0, seed=seed))
    out["wall_s"] = time.time() - t0
    return out
