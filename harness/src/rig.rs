//! `Rig<T, M, Tr>`: the thin generic adapter that turns plain-data `Op`s into real library
//! calls on vectors of one configuration. Everything else is written against `dyn DynRig`.

use std::any::TypeId;
use std::marker::PhantomData;
use std::mem::{size_of, ManuallyDrop};
use std::ops::Bound;
use std::panic::{catch_unwind, AssertUnwindSafe};
use hvcore::rigapi::{take_panic_msg, BoxRig, CfgInfo, DynRig, Snap};
use std::ptr::NonNull;

use any_vec::any_value::{
    AnyValue, AnyValueCloneable, AnyValueMut, AnyValueRaw, AnyValueTypelessMut, AnyValueSizeless, AnyValueSizelessRaw, AnyValueTypeless,
    AnyValueTypelessRaw, AnyValueWrapper, Unknown,
};
use any_vec::traits::Cloneable;
use any_vec::{AnyVec, SatisfyTraits};

use crate::caps::{put, MemCaps, TrCaps};
use hvcore::elems::{elem_info, Elem};
use hvcore::monalloc;
use hvcore::ops::*;
use hvcore::reg::{self, Id};

// ---------------------------------------------------------------------------------------------
// value sources owned by the harness

/// A value handed to the library by raw pointer; dropped by the harness unless consumed.
pub struct RawSlot<T> {
    v: ManuallyDrop<T>,
    live: bool,
}
impl<T: Elem> RawSlot<T> {
    pub fn new(id: Id) -> Self {
        RawSlot { v: ManuallyDrop::new(T::make(id)), live: true }
    }
    pub fn ptr(&mut self) -> NonNull<u8> {
        NonNull::from(&mut *self.v).cast::<u8>()
    }
    pub fn consumed(&mut self) {
        self.live = false;
    }
}
impl<T> Drop for RawSlot<T> {
    fn drop(&mut self) {
        if self.live {
            unsafe { ManuallyDrop::drop(&mut self.v) }
        }
    }
}

/// A user-defined `AnyValue` whose type id is a run-time field (may lie: C04).
pub struct FakeVal<T: 'static> {
    val: ManuallyDrop<T>,
    tid: TypeId,
}
impl<T: 'static> FakeVal<T> {
    pub fn new(val: T, tid: TypeId) -> Self {
        FakeVal { val: ManuallyDrop::new(val), tid }
    }
}
impl<T: 'static> Drop for FakeVal<T> {
    fn drop(&mut self) {
        unsafe { ManuallyDrop::drop(&mut self.val) }
    }
}
impl<T: 'static> AnyValueSizeless for FakeVal<T> {
    type Type = Unknown;
    fn as_bytes_ptr(&self) -> *const u8 {
        &*self.val as *const T as *const u8
    }
}
impl<T: 'static> AnyValueTypeless for FakeVal<T> {
    fn size(&self) -> usize {
        size_of::<T>()
    }
}
impl<T: 'static> AnyValue for FakeVal<T> {
    fn value_typeid(&self) -> TypeId {
        self.tid
    }
}

/// A user-implemented value with a statically known element type: larger than the element (the value is followed by other
/// fields), and - as the trait documentation allows - its `move_into` copies exactly the `bytes_size` bytes it is told.
#[repr(C)]
pub struct UserTyped<T: 'static> {
    val: ManuallyDrop<T>,
    tail: [u8; 40],
}
impl<T: 'static> UserTyped<T> {
    pub fn new(val: T) -> Self {
        UserTyped { val: ManuallyDrop::new(val), tail: [0xE7; 40] }
    }
}
impl<T: 'static> Drop for UserTyped<T> {
    fn drop(&mut self) {
        unsafe { ManuallyDrop::drop(&mut self.val) }
    }
}
impl<T: 'static> AnyValueSizeless for UserTyped<T> {
    type Type = T;
    fn as_bytes_ptr(&self) -> *const u8 {
        &*self.val as *const T as *const u8
    }
    unsafe fn move_into<KnownType: 'static>(self, out: *mut u8, bytes_size: usize) {
        std::ptr::copy_nonoverlapping(self.as_bytes_ptr(), out, bytes_size);
        std::mem::forget(self);
    }
}
impl<T: 'static> AnyValueTypeless for UserTyped<T> {
    fn size(&self) -> usize {
        size_of::<T>()
    }
}
impl<T: 'static> AnyValue for UserTyped<T> {
    fn value_typeid(&self) -> TypeId {
        TypeId::of::<T>()
    }
}
impl<T: 'static + Clone> any_vec::any_value::AnyValueCloneable for UserTyped<T> {
    unsafe fn clone_into(&self, out: *mut u8) {
        (out as *mut T).write(T::clone(&self.val));
    }
}

/// Replacement-iterator wrapper: every `next` is a user-code invocation for the fault injector;
/// `len()` may be misreported by `delta`.
pub struct UserIter<I> {
    inner: I,
    delta: isize,
    /// 0: always lies by delta; 1: honest on the first `len()` call, lies afterwards; 2: lies on the first call only
    mode: u8,
    calls: std::cell::Cell<u32>,
}
impl<I> UserIter<I> {
    /// `code`: see `ops::lie_decode`
    pub fn new(inner: I, code: isize) -> Self {
        let (delta, mode) = lie_decode(code.clamp(-128, 127) as i8);
        UserIter { inner, delta, mode, calls: std::cell::Cell::new(0) }
    }
}
impl<I: ExactSizeIterator> Iterator for UserIter<I> {
    type Item = I::Item;
    fn next(&mut self) -> Option<I::Item> {
        reg::user_call("repl-next");
        self.inner.next()
    }
    fn size_hint(&self) -> (usize, Option<usize>) {
        let n = self.len();
        (n, Some(n))
    }
}
impl<I: ExactSizeIterator> ExactSizeIterator for UserIter<I> {
    fn len(&self) -> usize {
        // `len()` of the replacement iterator is user code too
        reg::user_call("repl-len");
        let n = self.calls.get();
        self.calls.set(n + 1);
        let lie = match self.mode {
            0 => true,
            1 => n >= 1,
            _ => n == 0,
        };
        (self.inner.len() as isize + if lie { self.delta } else { 0 }).max(0) as usize
    }
}

// ---------------------------------------------------------------------------------------------

pub struct Rig<T: Elem + SatisfyTraits<Tr>, M: MemCaps, Tr: ?Sized + TrCaps> {
    vecs: Vec<AnyVec<Tr, M>>,
    cfg: CfgInfo,
    _p: PhantomData<T>,
}

/// Execution context: raw access to the rig's vectors (distinct indices are borrowed
/// simultaneously) plus the outcome under construction.
pub struct Cx<'a, T: Elem + SatisfyTraits<Tr>, M: MemCaps, Tr: ?Sized + TrCaps> {
    base: *mut AnyVec<Tr, M>,
    n: usize,
    pub out: &'a mut Outcome,
    /// identity a search finisher (`End::Find(j)` ...) looks for: the element at absolute index j before the operation
    pub find_target: Option<Id>,
    _p: PhantomData<(&'a mut [AnyVec<Tr, M>], T)>,
}

fn probe_val<T: Elem>(t: &T) -> Val {
    match t.probe() {
        Ok(i) => Val::Id(i),
        Err(r) => Val::Garbage(r),
    }
}

impl<'a, T: Elem + SatisfyTraits<Tr>, M: MemCaps, Tr: ?Sized + TrCaps> Cx<'a, T, M, Tr> {
    /// Safety contract (harness-internal): no two live borrows of the same index.
    #[inline]
    #[allow(clippy::mut_from_ref)]
    pub fn vec(&self, i: usize) -> &'a mut AnyVec<Tr, M> {
        assert!(i < self.n, "HARNESS: vector index");
        unsafe { &mut *self.base.add(i) }
    }
    pub fn val(&mut self, v: Val) {
        monalloc::user_scope(|| self.out.vals.push(v));
    }
    pub fn len_report(&mut self, n: usize) {
        monalloc::user_scope(|| self.out.lens.push(n));
    }
    pub fn note(&mut self, s: String) {
        monalloc::user_scope(|| {
            if self.out.notes.len() < 16 {
                self.out.notes.push(s)
            }
        });
    }

    /// The typed view that just performed an operation is still a faithful view of its vector (same storage, length,
    /// capacity, last element): a view is allowed to be kept and used again.
    fn view_still_coherent(&mut self, tv: &any_vec::AnyVecMut<T, M>, v: usize, what: &str) {
        let (tp, tl, tc) = (tv.as_ptr() as usize, tv.len(), tv.capacity());
        let last = tv.as_slice().last().map(probe_val);
        let av = self.vec(v);
        let (ep, el, ec) = (av.as_bytes().as_ptr() as usize, av.len(), av.capacity());
        let elast = if el > 0 && el <= ec { av.get(el - 1).and_then(|e| e.downcast_ref::<T>().map(probe_val)) } else { None };
        if tl != el || tc != ec || (tp != ep && size_of::<T>() != 0) || (el <= ec && last != elast) {
            self.note(format!(
                "the typed view kept after {what} is stale: it reports storage {tp:#x} len {tl} capacity {tc} last {last:?}; the vector has storage {ep:#x} len {el} capacity {ec} last {elast:?}"
            ));
        }
    }

    fn check_handle<H: AnyValue>(&mut self, h: &H, expect_addr: Option<usize>, what: &str) {
        if h.value_typeid() != TypeId::of::<T>() {
            self.note(format!("{what}: value_typeid() is not the element type"));
        }
        if h.size() != size_of::<T>() {
            self.note(format!("{what}: size()={} but element size is {}", h.size(), size_of::<T>()));
        }
        let b = h.as_bytes();
        if b.len() != size_of::<T>() {
            self.note(format!("{what}: as_bytes().len()={} but element size is {}", b.len(), size_of::<T>()));
        }
        if let Some(a) = expect_addr {
            if b.as_ptr() as usize != a {
                self.note(format!("{what}: as_bytes() at {:#x}, element is at {:#x}", b.as_ptr() as usize, a));
            }
        }
    }

    /// Consume an owned erased value (removal handle / drained element) according to `sink`.
    pub fn consume<H: AnyValueMut>(&mut self, mut h: H, sink: &Sink) {
        let un = sink.unchecked;
        match sink.pre {
            Pre::None => {}
            Pre::Mutate(n) if un => unsafe { h.downcast_mut_unchecked::<T>() }.set_id(n),
            Pre::Mutate(n) => match h.downcast_mut::<T>() {
                Some(r) => r.set_id(n),
                None => self.note("downcast_mut::<T>() returned None for the right type".into()),
            },
            Pre::SwapWrapper(n) => {
                let mut w = AnyValueWrapper::new(T::make(n));
                if un {
                    unsafe { h.swap_unchecked(&mut w) }
                } else {
                    h.swap(&mut w);
                }
                drop(w);
            }
            Pre::SwapRaw(n) => {
                let mut slot = RawSlot::<T>::new(n);
                let mut raw = unsafe { AnyValueRaw::new(slot.ptr(), size_of::<T>(), TypeId::of::<T>()) };
                if un {
                    unsafe { raw.swap_unchecked(&mut h) }
                } else {
                    h.swap(&mut raw);
                }
                drop(slot);
            }
            Pre::Inspect => self.check_handle(&h, None, "owned handle"),
        }
        if un {
            match sink.fin {
                Fin::Downcast => {
                    let t = unsafe { h.downcast_unchecked::<T>() };
                    self.val(probe_val(&t));
                    return drop(t);
                }
                Fin::Ref => {
                    let v = probe_val(unsafe { h.downcast_ref_unchecked::<T>() });
                    self.val(v);
                    return drop(h);
                }
                _ => {}
            }
        }
        match sink.fin {
            Fin::Drop => drop(h),
            Fin::Downcast => match h.downcast::<T>() {
                Some(t) => {
                    self.val(probe_val(&t));
                    drop(t);
                }
                None => self.note("downcast::<T>() returned None for the right type".into()),
            },
            Fin::Ref => {
                match h.downcast_ref::<T>() {
                    Some(t) => {
                        let v = probe_val(t);
                        self.val(v)
                    }
                    None => self.note("downcast_ref::<T>() returned None for the right type".into()),
                }
                drop(h)
            }
            Fin::Push(w) => self.vec(w).push(h),
            Fin::Insert(w, k) => self.vec(w).insert(k, h),
            Fin::Forget => std::mem::forget(h),
        }
    }

    /// Same for a statically typed value (typed drain / splice items).
    pub fn consume_typed(&mut self, mut t: T, sink: &Sink) {
        match sink.pre {
            Pre::None | Pre::Inspect => {}
            Pre::Mutate(n) => t.set_id(n),
            Pre::SwapWrapper(n) | Pre::SwapRaw(n) => {
                let mut o = T::make(n);
                std::mem::swap(&mut t, &mut o);
                drop(o);
            }
        }
        match sink.fin {
            Fin::Drop => drop(t),
            Fin::Downcast | Fin::Ref => {
                self.val(probe_val(&t));
                drop(t)
            }
            Fin::Push(w) => self.vec(w).push(AnyValueWrapper::new(t)),
            Fin::Insert(w, k) => self.vec(w).insert(k, AnyValueWrapper::new(t)),
            Fin::Forget => std::mem::forget(t),
        }
    }

    pub fn run_script<I>(&mut self, mut it: I, script: &[Step], end: End)
    where
        I: DoubleEndedIterator + ExactSizeIterator,
        I::Item: AnyValueMut,
    {
        for st in script {
            let n = it.len();
            self.len_report(n);
            if it.size_hint() != (n, Some(n)) {
                self.note(format!("size_hint()={:?} but len()={}", it.size_hint(), n));
            }
            let item = match (st.back, st.skip) {
                (false, 0) => it.next(),
                (true, 0) => it.next_back(),
                (false, k) => it.nth(k as usize),
                (true, k) => it.nth_back(k as usize),
            };
            match item {
                None => self.val(Val::None),
                Some(e) => {
                    match e.downcast_ref::<T>() {
                        Some(t) => {
                            let v = probe_val(t);
                            self.val(v)
                        }
                        None => self.note("yielded item: downcast_ref::<T>() returned None".into()),
                    }
                    self.consume(e, &st.sink);
                }
            }
        }
        let n = it.len();
        self.len_report(n);
        if it.size_hint() != (n, Some(n)) {
            self.note(format!("size_hint()={:?} but len()={}", it.size_hint(), n));
        }
        self.finish(it, end, |e: &I::Item| e.downcast_ref::<T>().map(probe_val).unwrap_or(Val::Garbage(u64::MAX)), true);
    }

    /// Finishes an iterator the way `end` says. `hold`: a yielded item must not outlive the iterator (erased drain/splice, the
    /// known finding D16), so the finishers that return an item are called through `by_ref()` there; everywhere else the
    /// iterator's own (possibly overridden) method is called.
    pub fn finish<I>(&mut self, mut it: I, end: End, probe: impl Fn(&I::Item) -> Val, hold: bool)
    where
        I: DoubleEndedIterator + ExactSizeIterator,
    {
        let target = self.find_target.map(Val::Id);
        let key = |x: Val| match x {
            Val::Id(i) => i,
            _ => 0,
        };
        let hit = |x: Val| Some(x) == target;
        match end {
            End::Drop => return drop(it),
            End::Forget => return std::mem::forget(it),
            End::Count => {
                let c = it.count();
                return self.len_report(c);
            }
            End::Last => {
                let x = if hold { it.by_ref().last().map(|e| probe(&e)) } else { it.last().map(|e| probe(&e)) };
                return self.val(x.unwrap_or(Val::None));
            }
            End::MaxByKey => {
                let x = if hold { it.by_ref().max_by_key(|e| key(probe(e))).map(|e| probe(&e)) } else { it.max_by_key(|e| key(probe(e))).map(|e| probe(&e)) };
                return self.val(x.unwrap_or(Val::None));
            }
            End::MinByKey => {
                let x = if hold { it.by_ref().min_by_key(|e| key(probe(e))).map(|e| probe(&e)) } else { it.min_by_key(|e| key(probe(e))).map(|e| probe(&e)) };
                return self.val(x.unwrap_or(Val::None));
            }
            End::Fold => return it.fold((), |(), e| self.val(probe(&e))),
            End::RFold => return it.rfold((), |(), e| self.val(probe(&e))),
            End::StepBy2 => return it.step_by(2).for_each(|e| self.val(probe(&e))),
            End::ForEach => return it.for_each(|e| self.val(probe(&e))),
            End::Find(_) => {
                let x = it.find(|e| hit(probe(e))).map(|e| probe(&e));
                self.val(x.unwrap_or(Val::None));
            }
            End::RFind(_) => {
                let x = it.rfind(|e| hit(probe(e))).map(|e| probe(&e));
                self.val(x.unwrap_or(Val::None));
            }
            End::Position(_) => {
                let p = it.position(|e| hit(probe(&e)));
                self.len_report(p.unwrap_or(usize::MAX));
            }
            End::RPosition(_) => {
                let p = it.rposition(|e| hit(probe(&e)));
                self.len_report(p.unwrap_or(usize::MAX));
            }
            End::Any(_) => {
                let b = it.any(|e| hit(probe(&e)));
                self.len_report(b as usize);
            }
            End::All(_) => {
                let b = it.all(|e| !hit(probe(&e)));
                self.len_report(b as usize);
            }
        }
        // after a search: what is left, by count and by identity
        let n = it.len();
        self.len_report(n);
        it.fold((), |(), e| self.val(probe(&e)));
    }

    pub fn run_script_typed<I>(&mut self, mut it: I, script: &[Step], end: End)
    where
        I: DoubleEndedIterator<Item = T> + ExactSizeIterator,
    {
        for st in script {
            let n = it.len();
            self.len_report(n);
            if it.size_hint() != (n, Some(n)) {
                self.note(format!("size_hint()={:?} but len()={}", it.size_hint(), n));
            }
            let item = match (st.back, st.skip) {
                (false, 0) => it.next(),
                (true, 0) => it.next_back(),
                (false, k) => it.nth(k as usize),
                (true, k) => it.nth_back(k as usize),
            };
            match item {
                None => self.val(Val::None),
                Some(t) => {
                    self.val(probe_val(&t));
                    self.consume_typed(t, &st.sink);
                }
            }
        }
        let n = it.len();
        self.len_report(n);
        self.finish(it, end, |e: &T| probe_val(e), false);
    }

    fn feed(&mut self, v: usize, at: Option<usize>, src: &Src) {
        let dst = self.vec(v);
        match src {
            Src::Wrapper(id) => put(dst, at, AnyValueWrapper::new(T::make(*id))),
            Src::Raw(id) => {
                let mut slot = RawSlot::<T>::new(*id);
                let raw = unsafe { AnyValueRaw::new(slot.ptr(), size_of::<T>(), TypeId::of::<T>()) };
                put(dst, at, raw);
                slot.consumed();
            }
            Src::TypelessRaw(id) => {
                let mut slot = RawSlot::<T>::new(*id);
                let raw = unsafe { AnyValueTypelessRaw::new(slot.ptr(), size_of::<T>()) };
                unsafe {
                    match at {
                        None => dst.push_unchecked(raw),
                        Some(i) => dst.insert_unchecked(i, raw),
                    }
                }
                slot.consumed();
            }
            Src::SizelessRaw(id) => {
                let mut slot = RawSlot::<T>::new(*id);
                let raw = unsafe { AnyValueSizelessRaw::new(slot.ptr()) };
                unsafe {
                    match at {
                        None => dst.push_unchecked(raw),
                        Some(i) => dst.insert_unchecked(i, raw),
                    }
                }
                slot.consumed();
            }
            Src::Pop(w) => {
                assert_ne!(v, *w, "HARNESS: source == destination");
                let h = self.vec(*w).pop().expect("HARNESS: pop source empty");
                put(dst, at, h)
            }
            Src::HandleUnchecked(w) => {
                assert_ne!(v, *w, "HARNESS: source == destination");
                if at.map_or(false, |i| i > dst.len()) {
                    // the unchecked entry point must not be given an index out of range: use the checked one (it panics)
                    let h = self.vec(*w).pop().expect("HARNESS: pop source empty");
                    return put(dst, at, h);
                }
                let h = self.vec(*w).pop().expect("HARNESS: pop source empty");
                crate::caps::put_unchecked(dst, at, h)
            }
            Src::UserTyped(id) => put(dst, at, UserTyped::new(T::make(*id))),
            Src::UserLazy(id) => {
                let u = UserTyped::new(T::make(*id));
                {
                    let lz = any_vec::any_value::AnyValueCloneable::lazy_clone(&u);
                    let l2 = any_vec::any_value::AnyValueCloneable::lazy_clone(&lz);
                    if lz.size() != size_of::<T>() || lz.as_bytes().len() != size_of::<T>() || l2.size() != size_of::<T>() || lz.value_typeid() != TypeId::of::<T>() {
                        self.note(format!("lazy clone of a user value of {} bytes reports size {} / {} bytes (depth 2: {})", size_of::<T>(), lz.size(), lz.as_bytes().len(), l2.size()));
                    }
                    put(dst, at, lz);
                }
                drop(u)
            }
            Src::Remove(w, j) => {
                assert_ne!(v, *w, "HARNESS: source == destination");
                let h = self.vec(*w).remove(*j);
                put(dst, at, h)
            }
            Src::SwapRemove(w, j) => {
                assert_ne!(v, *w, "HARNESS: source == destination");
                let h = self.vec(*w).swap_remove(*j);
                put(dst, at, h)
            }
            Src::Drained(w, j) => {
                assert_ne!(v, *w, "HARNESS: source == destination");
                let mut d = self.vec(*w).drain(*j..*j + 1);
                let e = d.next().expect("HARNESS: drained source");
                put(dst, at, e);
                drop(d)
            }
            Src::Lazy(kind, w, j, depth) => {
                assert_ne!(v, *w, "HARNESS: source == destination");
                if !Tr::lazy_put(dst, at, *kind, self.vec(*w), *j, *depth) {
                    self.out.unsupported = true;
                }
            }
        }
    }

    fn elem_addr(&self, v: usize, at: usize) -> usize {
        self.vec(v).as_bytes().as_ptr() as usize + at * size_of::<T>()
    }

    fn exec_inner(&mut self, op: &Op) {
        match op {
            Op::LazyMulti(m) => {
                if !Tr::lazy_multi(self, m) {
                    self.out.unsupported = true;
                }
            }
            Op::IterScript { v, how, script, skips, clone_at, end } => self.exec_iter_script(*v, *how, script, skips, *clone_at, *end),
            Op::ViewWrite { v, at, via, id, w, j } => self.exec_view_write(*v, *at, *via, *id, *w, *j),
            Op::CloneEmptyIn { v, target } => match target {
                #[cfg(feature = "alloc")]
                Target::Heap => self.clone_empty_in_with::<any_vec::mem::Heap>(*v),
                #[cfg(not(feature = "alloc"))]
                Target::Heap => self.out.unsupported = true,
                Target::Guard => self.clone_empty_in_with::<crate::guardmem::GuardMem>(*v),
                Target::Stack => {
                    if std::mem::align_of::<T>() > 8 || hvcore::rigapi::borrow_tracking() {
                        self.out.unsupported = true
                    } else {
                        self.clone_empty_in_with::<any_vec::mem::Stack<4096>>(*v)
                    }
                }
                Target::StackN => {
                    if std::mem::align_of::<T>() > 8 || hvcore::rigapi::borrow_tracking() {
                        self.out.unsupported = true
                    } else {
                        self.clone_empty_in_with::<any_vec::mem::StackN<16, 4096>>(*v)
                    }
                }
            },
            Op::Push { v, src } => self.feed(*v, None, src),
            Op::Insert { v, at, src } => self.feed(*v, Some(*at), src),
            Op::Pop { v, sink } => match self.vec(*v).pop() {
                None => self.val(Val::None),
                Some(h) => self.consume(h, sink),
            },
            Op::Remove { v, at, sink } => {
                let h = self.vec(*v).remove(*at);
                self.consume(h, sink)
            }
            Op::SwapRemove { v, at, sink } => {
                let h = self.vec(*v).swap_remove(*at);
                self.consume(h, sink)
            }
            Op::Clear { v } => self.vec(*v).clear(),
            Op::TPush { v, id } => {
                let mut tv = self.vec(*v).downcast_mut::<T>().expect("typed view of the right type");
                tv.push(T::make(*id));
                self.view_still_coherent(&tv, *v, "push");
            }
            Op::TInsert { v, at, id } => {
                let mut tv = self.vec(*v).downcast_mut::<T>().expect("typed view of the right type");
                tv.insert(*at, T::make(*id));
                self.view_still_coherent(&tv, *v, "insert");
            }
            Op::TPop { v } => {
                let mut tv = self.vec(*v).downcast_mut::<T>().expect("typed view of the right type");
                match tv.pop() {
                    None => self.val(Val::None),
                    Some(t) => self.val(probe_val(&t)),
                }
                self.view_still_coherent(&tv, *v, "pop");
            }
            Op::TRemove { v, at } => {
                let mut tv = self.vec(*v).downcast_mut::<T>().expect("typed view of the right type");
                let t = tv.remove(*at);
                self.val(probe_val(&t));
                drop(t);
                self.view_still_coherent(&tv, *v, "remove");
            }
            Op::TSwapRemove { v, at } => {
                let mut tv = self.vec(*v).downcast_mut::<T>().expect("typed view of the right type");
                let t = tv.swap_remove(*at);
                self.val(probe_val(&t));
                drop(t);
                self.view_still_coherent(&tv, *v, "swap_remove");
            }
            Op::TClear { v } => {
                let mut tv = self.vec(*v).downcast_mut::<T>().expect("typed view of the right type");
                tv.clear();
                self.view_still_coherent(&tv, *v, "clear");
            }
            Op::Get { v, at, how } => self.exec_get(*v, *at, *how),
            Op::Iter { v, how, rev } => self.exec_iter(*v, *how, *rev),
            Op::Drain { v, lo, hi, typed, script, end } => {
                let len = self.vec(*v).len();
                let (lo, hi) = (at_len(*lo, len), at_len(*hi, len));
                if *typed {
                    let mut tv = self.vec(*v).downcast_mut::<T>().expect("typed view of the right type");
                    let it = tv.drain((lo, hi));
                    self.run_script_typed(it, script, *end);
                    if *end != End::Forget {
                        self.view_still_coherent(&tv, *v, "drain");
                    }
                } else {
                    let it = self.vec(*v).drain((lo, hi));
                    self.run_script(it, script, *end)
                }
            }
            Op::Splice { v, lo, hi, typed, repl, script, end } => {
                let len = self.vec(*v).len();
                self.exec_splice(*v, (at_len(*lo, len), at_len(*hi, len)), *typed, repl, script, *end)
            }
            Op::CloneVec { v, into } => {
                assert_ne!(v, into, "HARNESS: clone into self");
                match Tr::clone_vec(self.vec(*v)) {
                    Some(c) => *self.vec(*into) = c,
                    None => self.out.unsupported = true,
                }
            }
            Op::CloneEmpty { v, into } => {
                assert_ne!(v, into, "HARNESS: clone into self");
                let c = self.vec(*v).clone_empty();
                *self.vec(*into) = c;
            }
            Op::Reserve { v, n, exact, typed } => {
                if !M::reserve::<Tr, T>(self.vec(*v), *n, *exact, *typed) {
                    self.out.unsupported = true;
                }
            }
            Op::ShrinkToFit { v, typed } => {
                if !M::shrink::<Tr, T>(self.vec(*v), None, *typed) {
                    self.out.unsupported = true;
                }
            }
            Op::ShrinkTo { v, n, typed } => {
                if !M::shrink::<Tr, T>(self.vec(*v), Some(*n), *typed) {
                    self.out.unsupported = true;
                }
            }
            Op::RawRoundTrip { v, times } => {
                let tmp = self.vec(*v).clone_empty();
                let old = std::mem::replace(self.vec(*v), tmp);
                let mut notes: Vec<String> = Vec::new();
                let (new, supported) = M::round_trip::<Tr>(old, *times, &mut |s| monalloc::user_scope(|| notes.push(s.to_string())));
                *self.vec(*v) = new;
                for n in notes {
                    self.note(n);
                }
                if !supported {
                    self.out.unsupported = true;
                }
            }
        }
    }

    fn clone_empty_in_with<M2: MemCaps>(&mut self, v: usize) {
        let src = self.vec(v);
        let n = src.len();
        if let Some(c) = M2::fixed_cap(size_of::<T>()) {
            if n > c {
                self.out.unsupported = true;
                return;
            }
        }
        let mut tmp: AnyVec<Tr, M2> = src.clone_empty_in(M2::builder());
        if !tmp.is_empty() || tmp.len() != 0 {
            self.note(format!("clone_empty_in: result has len {}", tmp.len()));
        }
        if tmp.element_typeid() != TypeId::of::<T>() || tmp.element_layout() != std::alloc::Layout::new::<T>() {
            self.note("clone_empty_in: result has another element type / layout".into());
        }
        for _ in 0..n {
            let h = src.remove(0);
            tmp.push(h);
        }
        match tmp.downcast_ref::<T>() {
            Some(tv) => {
                for e in tv.as_slice() {
                    self.val(probe_val(e));
                }
            }
            None => self.note("clone_empty_in: downcast_ref::<T>() of the result is None".into()),
        }
        if let Some(c) = Tr::clone_vec(&tmp) {
            match c.downcast_ref::<T>() {
                Some(tv) => {
                    for e in tv.as_slice() {
                        self.val(probe_val(e));
                    }
                }
                None => self.note("clone of clone_empty_in result: downcast_ref::<T>() is None".into()),
            }
            drop(c);
        }
        for _ in 0..n {
            let h = tmp.remove(0);
            src.push(h);
        }
        // lazy clones across backends (the documented intermediate-storage idiom)
        let mut lazies = 0;
        for i in 0..n {
            if !Tr::lazy_put(&mut tmp, None, if i % 2 == 0 { LazySrc::Ref } else { LazySrc::Mut }, src, i, 1 + (i % 3) as u8) {
                break;
            }
            lazies += 1;
        }
        if lazies > 0 {
            match tmp.downcast_ref::<T>() {
                Some(tv) => {
                    for e in tv.as_slice() {
                        self.val(probe_val(e));
                    }
                }
                None => self.note("clone_empty_in: downcast_ref::<T>() of the result is None".into()),
            }
        }
        drop(tmp);
    }

    /// Exchange the bytes of an element with the bytes of a fresh value, then drop the value that
    /// came out (registry-neutral way of writing an element through a byte view).
    fn swap_bytes_with_fresh(bytes: &mut [u8], id: Id) {
        assert_eq!(bytes.len(), size_of::<T>(), "byte view of one element has the element size");
        let mut fresh = ManuallyDrop::new(T::make(id));
        unsafe {
            std::ptr::swap_nonoverlapping(bytes.as_mut_ptr(), &mut *fresh as *mut T as *mut u8, size_of::<T>());
            ManuallyDrop::drop(&mut fresh);
        }
    }

    fn exec_view_write(&mut self, v: usize, at: usize, via: ViewKind, id: Id, w: usize, j: usize) {
        let sz = size_of::<T>();
        match via {
            ViewKind::ElemMutTyped => {
                let mut e = self.vec(v).at_mut(at);
                e.downcast_mut::<T>().expect("downcast_mut of the right type").set_id(id);
            }
            ViewKind::ElemMutTypedUnchecked => {
                let mut e = self.vec(v).at_mut(at);
                unsafe { e.downcast_mut_unchecked::<T>() }.set_id(id);
            }
            ViewKind::GetMutTyped => {
                let mut e = self.vec(v).get_mut(at).expect("index out of range");
                AnyValueMut::downcast_mut::<T>(&mut *e).expect("downcast_mut of the right type").set_id(id);
            }
            ViewKind::ElemMutBytes => {
                let mut e = self.vec(v).at_mut(at);
                Self::swap_bytes_with_fresh(e.as_bytes_mut(), id);
            }
            ViewKind::TypedAtMut => {
                let mut tv = self.vec(v).downcast_mut::<T>().expect("typed view of the right type");
                tv.at_mut(at).set_id(id);
            }
            ViewKind::TypedGetMut => {
                let mut tv = self.vec(v).downcast_mut::<T>().expect("typed view of the right type");
                tv.get_mut(at).expect("index out of range").set_id(id);
            }
            ViewKind::TypedSlice => {
                let mut tv = self.vec(v).downcast_mut::<T>().expect("typed view of the right type");
                tv.as_mut_slice()[at].set_id(id);
            }
            ViewKind::VecBytes => {
                if at >= self.vec(v).len() {
                    panic!("index out of range (harness-side bound of the byte view)");
                }
                let b = self.vec(v).as_bytes_mut();
                let hi = at.checked_add(1).and_then(|x| x.checked_mul(sz)).expect("index out of range");
                Self::swap_bytes_with_fresh(&mut b[at * sz..hi], id);
            }
            ViewKind::IterMutItem => {
                let mut e = self.vec(v).iter_mut().nth(at).expect("index out of range");
                e.downcast_mut::<T>().expect("downcast_mut of the right type").set_id(id);
            }
            ViewKind::TIterMutItem => {
                let mut tv = self.vec(v).downcast_mut::<T>().expect("typed view of the right type");
                tv.iter_mut().nth(at).expect("index out of range").set_id(id);
            }
            ViewKind::ElemSwapWrapper => {
                let mut e = self.vec(v).at_mut(at);
                let mut wv = AnyValueWrapper::new(T::make(id));
                e.swap(&mut wv);
                drop(wv);
            }
            ViewKind::WrapperSwapElem => {
                let mut e = self.vec(v).at_mut(at);
                let mut wv = AnyValueWrapper::new(T::make(id));
                wv.swap(&mut *e);
                drop(wv);
            }
            ViewKind::ElemSwapRaw => {
                let mut e = self.vec(v).at_mut(at);
                let mut slot = RawSlot::<T>::new(id);
                let mut raw = unsafe { AnyValueRaw::new(slot.ptr(), sz, TypeId::of::<T>()) };
                e.swap(&mut raw);
                drop(slot);
            }
            ViewKind::ElemSwapElem => {
                assert_ne!(v, w, "HARNESS: same vector");
                let mut a = self.vec(v).at_mut(at);
                let mut b = self.vec(w).at_mut(j);
                a.swap(&mut *b);
            }
            ViewKind::ElemSwapPopHandle => {
                assert_ne!(v, w, "HARNESS: same vector");
                let mut a = self.vec(v).at_mut(at);
                let mut h = self.vec(w).pop().expect("HARNESS: pop source");
                a.swap(&mut h);
                drop(h);
            }
            ViewKind::ElemSwapRemoveHandle => {
                assert_ne!(v, w, "HARNESS: same vector");
                let mut a = self.vec(v).at_mut(at);
                let mut h = self.vec(w).remove(j);
                h.swap(&mut *a);
                let t = h.downcast::<T>().expect("downcast of the right type");
                self.vec(w).push(AnyValueWrapper::new(t));
            }
        }
    }

    fn exec_iter_script(&mut self, v: usize, how: IterHow, script: &[bool], skips: &[u8], clone_at: Option<usize>, end: End) {
        let bound = self.vec(v).len().saturating_add(4);
        macro_rules! steps {
            ($it:ident, $probe:expr, $rprobe:expr, $n:ident, $pre:block) => {{
                for ($n, back) in script.iter().enumerate() {
                    $pre
                    let l = $it.len();
                    self.len_report(l);
                    if $it.size_hint() != (l, Some(l)) {
                        self.note(format!("size_hint()={:?} but len()={}", $it.size_hint(), l));
                    }
                    let k = skips.get($n).copied().unwrap_or(0) as usize;
                    let item = match (*back, k) {
                        (false, 0) => $it.next(),
                        (true, 0) => $it.next_back(),
                        (false, k) => $it.nth(k),
                        (true, k) => $it.nth_back(k),
                    };
                    match item {
                        None => self.val(Val::None),
                        Some(e) => {
                            let x = $probe(e);
                            self.val(x)
                        }
                    }
                }
                let l = $it.len();
                self.len_report(l);
                if !matches!(end, End::Drop | End::Forget) {
                    // by value: the iterator's own (possibly overridden) bulk method runs
                    self.finish($it, end, $rprobe, false);
                }
            }};
        }
        macro_rules! drain_clone {
            ($cl:ident, $probe:expr) => {{
                if let Some(mut c) = $cl {
                    let l = c.len();
                    self.len_report(l);
                    let mut k = 0;
                    while let Some(e) = c.next() {
                        let x = $probe(e);
                        self.val(x);
                        k += 1;
                        if k > bound {
                            self.note("cloned iterator yields more items than the vector holds".into());
                            break;
                        }
                    }
                }
            }};
        }
        let pref = |e: any_vec::element::ElementRef<Tr, M>| e.downcast_ref::<T>().map(probe_val).unwrap_or(Val::Garbage(u64::MAX));
        let pmut = |mut e: any_vec::element::ElementMut<Tr, M>| e.downcast_mut::<T>().map(|r| probe_val(&*r)).unwrap_or(Val::Garbage(u64::MAX));
        match how {
            IterHow::Iter | IterHow::IntoIterRef => {
                let mut it = if how == IterHow::Iter { self.vec(v).iter() } else { (&*self.vec(v)).into_iter() };
                let mut cl = None;
                steps!(it, pref, |e: &any_vec::element::ElementRef<Tr, M>| e.downcast_ref::<T>().map(probe_val).unwrap_or(Val::Garbage(u64::MAX)), n, {
                    if clone_at == Some(n) {
                        cl = Some(it.clone());
                    }
                });
                drain_clone!(cl, pref);
            }
            IterHow::IterMut | IterHow::IntoIterMut => {
                if clone_at.is_some() {
                    self.out.unsupported = true;
                    return;
                }
                let mut it = if how == IterHow::IterMut { self.vec(v).iter_mut() } else { self.vec(v).into_iter() };
                steps!(it, pmut, |e: &any_vec::element::ElementMut<Tr, M>| e.downcast_ref::<T>().map(probe_val).unwrap_or(Val::Garbage(u64::MAX)), n, {});
            }
            IterHow::TIter | IterHow::TIntoIterRef => {
                let tv = self.vec(v).downcast_ref::<T>().expect("typed view of the right type");
                let mut it = if how == IterHow::TIter { tv.iter() } else { tv.into_iter() };
                let mut cl = None;
                steps!(it, |e: &T| probe_val(e), |e: &&T| probe_val(*e), n, {
                    if clone_at == Some(n) {
                        cl = Some(it.clone());
                    }
                });
                drain_clone!(cl, |e: &T| probe_val(e));
            }
            IterHow::TIterMut | IterHow::TIntoIterMut => {
                if clone_at.is_some() {
                    self.out.unsupported = true;
                    return;
                }
                let mut tv = self.vec(v).downcast_mut::<T>().expect("typed view of the right type");
                let mut it = if how == IterHow::TIterMut { tv.iter_mut() } else { tv.into_iter() };
                steps!(it, |e: &mut T| probe_val(&*e), |e: &&mut T| probe_val(&**e), n, {});
            }
        }
    }

    fn exec_get(&mut self, v: usize, at: usize, how: GetHow) {
        let len = self.vec(v).len();
        let addr = if at < len { Some(self.elem_addr(v, at)) } else { None };
        match how {
            GetHow::Get => match self.vec(v).get(at) {
                None => self.val(Val::None),
                Some(e) => {
                    self.check_handle(&*e, addr, "get()");
                    let val = e.downcast_ref::<T>().map(probe_val);
                    match val {
                        Some(x) => self.val(x),
                        None => self.note("ElementRef::downcast_ref::<T>() returned None".into()),
                    }
                }
            },
            GetHow::At => {
                let e = self.vec(v).at(at);
                self.check_handle(&*e, addr, "at()");
                let val = AnyValue::downcast_ref::<T>(&*e).map(probe_val);
                match val {
                    Some(x) => self.val(x),
                    None => self.note("AnyValue::downcast_ref::<T>() returned None".into()),
                }
            }
            GetHow::GetMut => match self.vec(v).get_mut(at) {
                None => self.val(Val::None),
                Some(mut e) => {
                    self.check_handle(&*e, addr, "get_mut()");
                    let val = e.downcast_mut::<T>().map(|r| probe_val(&*r));
                    match val {
                        Some(x) => self.val(x),
                        None => self.note("ElementMut::downcast_mut::<T>() returned None".into()),
                    }
                }
            },
            GetHow::AtMut => {
                let mut e = self.vec(v).at_mut(at);
                self.check_handle(&*e, addr, "at_mut()");
                let val = AnyValueMut::downcast_mut::<T>(&mut *e).map(|r| probe_val(&*r));
                match val {
                    Some(x) => self.val(x),
                    None => self.note("AnyValueMut::downcast_mut::<T>() returned None".into()),
                }
            }
            GetHow::TGet => {
                let tv = self.vec(v).downcast_ref::<T>().expect("typed view of the right type");
                let r = tv.get(at).map(probe_val);
                self.val(r.unwrap_or(Val::None))
            }
            GetHow::TAt => {
                let tv = self.vec(v).downcast_ref::<T>().expect("typed view of the right type");
                let r = probe_val(tv.at(at));
                self.val(r)
            }
            GetHow::TGetMut => {
                let mut tv = self.vec(v).downcast_mut::<T>().expect("typed view of the right type");
                let r = tv.get_mut(at).map(|r| probe_val(&*r));
                self.val(r.unwrap_or(Val::None))
            }
            GetHow::TAtMut => {
                let mut tv = self.vec(v).downcast_mut::<T>().expect("typed view of the right type");
                let r = probe_val(&*tv.at_mut(at));
                self.val(r)
            }
            // the unsafe flavours: only meaningful for an index in range (out of range the operation is not issued)
            GetHow::GetUnchecked | GetHow::GetUncheckedMut | GetHow::TGetUnchecked | GetHow::TGetUncheckedMut if at >= len => {
                self.out.unsupported = true;
            }
            GetHow::GetUnchecked => {
                let e = unsafe { self.vec(v).get_unchecked(at) };
                self.check_handle(&*e, addr, "get_unchecked()");
                let x = probe_val(unsafe { e.downcast_ref_unchecked::<T>() });
                self.val(x)
            }
            GetHow::GetUncheckedMut => {
                let mut e = unsafe { self.vec(v).get_unchecked_mut(at) };
                self.check_handle(&*e, addr, "get_unchecked_mut()");
                let x = probe_val(&*unsafe { e.downcast_mut_unchecked::<T>() });
                self.val(x)
            }
            GetHow::TGetUnchecked => {
                let tv = unsafe { self.vec(v).downcast_ref_unchecked::<T>() };
                let r = unsafe { tv.get_unchecked(at) };
                if size_of::<T>() > 0 && Some(r as *const T as usize) != addr {
                    self.note(format!("typed get_unchecked({at}) is at {:#x}, element {at} is at {:#x}", r as *const T as usize, addr.unwrap_or(0)));
                }
                let x = probe_val(r);
                self.val(x)
            }
            GetHow::TGetUncheckedMut => {
                let mut tv = unsafe { self.vec(v).downcast_mut_unchecked::<T>() };
                let r = unsafe { tv.get_unchecked_mut(at) };
                let x = probe_val(&*r);
                self.val(x)
            }
        }
    }

    fn exec_iter(&mut self, v: usize, how: IterHow, rev: bool) {
        let bound = self.vec(v).len().saturating_add(8);
        macro_rules! walk {
            ($it:expr, $probe:expr) => {{
                let mut it = $it;
                let mut n = 0usize;
                loop {
                    let item = if rev { it.next_back() } else { it.next() };
                    match item {
                        None => break,
                        Some(e) => {
                            let val = $probe(e);
                            self.val(val);
                        }
                    }
                    n += 1;
                    if n > bound {
                        self.note("iterator yields more items than the vector holds".into());
                        break;
                    }
                }
            }};
        }
        match how {
            IterHow::Iter => walk!(self.vec(v).iter(), |e: any_vec::element::ElementRef<Tr, M>| e
                .downcast_ref::<T>()
                .map(probe_val)
                .unwrap_or(Val::Garbage(u64::MAX))),
            IterHow::IterMut => walk!(self.vec(v).iter_mut(), |mut e: any_vec::element::ElementMut<Tr, M>| e
                .downcast_mut::<T>()
                .map(|r| probe_val(&*r))
                .unwrap_or(Val::Garbage(u64::MAX))),
            IterHow::IntoIterRef => walk!((&*self.vec(v)).into_iter(), |e: any_vec::element::ElementRef<Tr, M>| e
                .downcast_ref::<T>()
                .map(probe_val)
                .unwrap_or(Val::Garbage(u64::MAX))),
            IterHow::IntoIterMut => walk!(self.vec(v).into_iter(), |mut e: any_vec::element::ElementMut<Tr, M>| e
                .downcast_mut::<T>()
                .map(|r| probe_val(&*r))
                .unwrap_or(Val::Garbage(u64::MAX))),
            IterHow::TIter => {
                let tv = self.vec(v).downcast_ref::<T>().expect("typed view of the right type");
                walk!(tv.iter(), |e: &T| probe_val(e))
            }
            IterHow::TIterMut => {
                let mut tv = self.vec(v).downcast_mut::<T>().expect("typed view of the right type");
                walk!(tv.iter_mut(), |e: &mut T| probe_val(&*e))
            }
            IterHow::TIntoIterRef => {
                let tv = self.vec(v).downcast_ref::<T>().expect("typed view of the right type");
                walk!(tv.into_iter(), |e: &T| probe_val(e))
            }
            IterHow::TIntoIterMut => {
                let tv = self.vec(v).downcast_mut::<T>().expect("typed view of the right type");
                walk!(tv.into_iter(), |e: &mut T| probe_val(&*e))
            }
        }
    }

    fn exec_splice(&mut self, v: usize, range: (Bound<usize>, Bound<usize>), typed: bool, repl: &Repl, script: &[Step], end: End) {
        if let Repl::Growing(ids, k) = repl {
            let n0 = ids.len() - *k;
            let q = monalloc::user_scope(|| {
                let mut d = std::collections::VecDeque::with_capacity(ids.len() + 1);
                d.extend(ids[..n0].iter().map(|i| T::make(*i)));
                std::rc::Rc::new(std::cell::RefCell::new(d))
            });
            if typed {
                let mut tv = self.vec(v).downcast_mut::<T>().expect("typed view of the right type");
                let it = tv.splice(range, SharedQueue(q.clone()));
                monalloc::user_scope(|| ids[n0..].iter().for_each(|i| q.borrow_mut().push_back(T::make(*i))));
                self.run_script_typed(it, script, end);
                if end != End::Forget {
                    self.view_still_coherent(&tv, v, "splice");
                }
            } else {
                let it = self.vec(v).splice(range, SharedQueue(q.clone()).map(AnyValueWrapper::new));
                monalloc::user_scope(|| ids[n0..].iter().for_each(|i| q.borrow_mut().push_back(T::make(*i))));
                self.run_script(it, script, end);
            }
            monalloc::user_scope(|| drop(q));
            return;
        }
        if typed {
            let ids: &[Id] = match repl {
                Repl::Wrappers(ids) => ids,
                Repl::Lying(ids, _) => ids,
                _ => {
                    self.out.unsupported = true;
                    return;
                }
            };
            let delta = if let Repl::Lying(_, d) = repl { *d as isize } else { 0 };
            let vals: Vec<T> = monalloc::user_scope(|| ids.iter().map(|i| T::make(*i)).collect());
            let mut tv = self.vec(v).downcast_mut::<T>().expect("typed view of the right type");
            let it = tv.splice(range, UserIter::new(vals.into_iter(), delta));
            self.run_script_typed(it, script, end);
            if end != End::Forget {
                self.view_still_coherent(&tv, v, "splice");
            }
            return;
        }
        match repl {
            Repl::Wrappers(ids) | Repl::Lying(ids, _) => {
                let delta = if let Repl::Lying(_, d) = repl { *d as isize } else { 0 };
                let vals: Vec<T> = monalloc::user_scope(|| ids.iter().map(|i| T::make(*i)).collect());
                let it = self.vec(v).splice(range, UserIter::new(vals.into_iter().map(AnyValueWrapper::new), delta));
                self.run_script(it, script, end)
            }
            Repl::Raws(ids) => {
                let mut slots: Vec<RawSlot<T>> = monalloc::user_scope(|| ids.iter().map(|i| RawSlot::<T>::new(*i)).collect());
                let iter = slots.iter_mut().map(|s| {
                    s.consumed();
                    unsafe { AnyValueRaw::new(s.ptr(), size_of::<T>(), TypeId::of::<T>()) }
                });
                let it = self.vec(v).splice(range, UserIter::new(iter, 0));
                self.run_script(it, script, end);
                drop(slots);
            }
            Repl::Growing(..) => unreachable!("handled above"),
            Repl::DrainOf(w, a, b) => {
                assert_ne!(v, *w, "HARNESS: source == destination");
                let d = self.vec(*w).drain(*a..*b);
                let it = self.vec(v).splice(range, d);
                self.run_script(it, script, end)
            }
            Repl::LazyRefs(w, js) => {
                assert_ne!(v, *w, "HARNESS: source == destination");
                if !Tr::splice_lazy(self, v, range, *w, js, script, end) {
                    self.out.unsupported = true;
                }
            }
            Repl::Mismatch(ids, k) => {
                // user-defined AnyValue values; the k-th reports a foreign type id
                let vals: Vec<FakeVal<T>> = monalloc::user_scope(|| {
                    ids.iter()
                        .enumerate()
                        .map(|(n, i)| {
                            let tid = if n == *k { TypeId::of::<Foreign>() } else { TypeId::of::<T>() };
                            FakeVal::new(T::make(*i), tid)
                        })
                        .collect()
                });
                let it = self.vec(v).splice(range, UserIter::new(vals.into_iter(), 0));
                self.run_script(it, script, end)
            }
            Repl::MismatchRaw(ids, k) => {
                let mut slots: Vec<RawSlot<T>> = monalloc::user_scope(|| ids.iter().map(|i| RawSlot::<T>::new(*i)).collect());
                let kk = *k;
                let iter = slots.iter_mut().enumerate().map(move |(n, s)| {
                    let tid = if n == kk { TypeId::of::<Foreign>() } else { TypeId::of::<T>() };
                    if n != kk {
                        s.consumed();
                    }
                    unsafe { AnyValueRaw::new(s.ptr(), size_of::<T>(), tid) }
                });
                let it = self.vec(v).splice(range, UserIter::new(iter, 0));
                self.run_script(it, script, end);
                drop(slots);
            }
        }
    }
}

/// A type that is never an element type.
pub struct Foreign;

/// An honest replacement iterator over a shared queue (its owner may append to the queue while the splice handle is alive).
pub struct SharedQueue<T>(pub std::rc::Rc<std::cell::RefCell<std::collections::VecDeque<T>>>);
impl<T> Iterator for SharedQueue<T> {
    type Item = T;
    fn next(&mut self) -> Option<T> {
        reg::user_call("repl-next");
        self.0.borrow_mut().pop_front()
    }
    fn size_hint(&self) -> (usize, Option<usize>) {
        let n = self.0.borrow().len();
        (n, Some(n))
    }
}
impl<T> ExactSizeIterator for SharedQueue<T> {
    fn len(&self) -> usize {
        reg::user_call("repl-len");
        self.0.borrow().len()
    }
}

pub fn splice_lazy_impl<T, M, Tr>(
    cx: &mut Cx<T, M, Tr>,
    v: usize,
    range: (Bound<usize>, Bound<usize>),
    w: usize,
    js: &[usize],
    script: &[Step],
    end: End,
) where
    T: Elem + SatisfyTraits<Tr>,
    M: MemCaps,
    Tr: ?Sized + TrCaps + Cloneable,
{
    let src = cx.vec(w);
    let refs: Vec<any_vec::element::ElementRef<Tr, M>> = monalloc::user_scope(|| js.iter().map(|j| src.at(*j)).collect());
    let iter = refs.iter().map(|r| r.lazy_clone());
    let it = cx.vec(v).splice(range, UserIter::new(iter, 0));
    cx.run_script(it, script, end);
    drop(refs);
}

pub fn lazy_multi_impl<T, M, Tr>(cx: &mut Cx<T, M, Tr>, m: &LazyMulti)
where
    T: Elem + SatisfyTraits<Tr>,
    M: MemCaps,
    Tr: ?Sized + TrCaps + Cloneable,
{
    fn uses<T, M, Tr, C>(cx: &mut Cx<T, M, Tr>, c: &C, m: &LazyMulti)
    where
        T: Elem + SatisfyTraits<Tr>,
        M: MemCaps,
        Tr: ?Sized + TrCaps + Cloneable,
        C: AnyValueCloneable + AnyValue,
    {
        // creation, copying and dropping of lazy clones must be free of user-code calls
        let (_, d0, c0) = reg::event_counts();
        let l1 = c.lazy_clone();
        let l1b = l1.clone();
        let l2 = l1b.lazy_clone();
        let l3 = l2.lazy_clone();
        let (_, d1, c1) = reg::event_counts();
        if (d0, c0) != (d1, c1) {
            cx.note(format!("creating/copying lazy clones ran user code: drops {}->{}, clones {}->{}", d0, d1, c0, c1));
        }
        for u in &m.uses {
            macro_rules! with_depth {
                ($f:expr) => {
                    match m.depth {
                        0 | 1 => $f(l1.clone()),
                        2 => $f(l2.clone()),
                        _ => $f(l3.clone()),
                    }
                };
            }
            match *u {
                LazyUse::Push(x) => {
                    assert_ne!(x, m.w);
                    match m.depth {
                        0 | 1 => cx.vec(x).push(l1.clone()),
                        2 => cx.vec(x).push(l2.clone()),
                        _ => cx.vec(x).push(l3.clone()),
                    }
                }
                LazyUse::Insert(x, k) => {
                    assert_ne!(x, m.w);
                    match m.depth {
                        0 | 1 => cx.vec(x).insert(k, l1.clone()),
                        2 => cx.vec(x).insert(k, l2.clone()),
                        _ => cx.vec(x).insert(k, l3.clone()),
                    }
                }
                LazyUse::Splice(x, k) => {
                    assert_ne!(x, m.w);
                    match m.depth {
                        0 | 1 => drop(cx.vec(x).splice(k..k, [l1.clone()])),
                        2 => drop(cx.vec(x).splice(k..k, [l2.clone()])),
                        _ => drop(cx.vec(x).splice(k..k, [l3.clone()])),
                    }
                }
                LazyUse::Downcast => {
                    let t: Option<T> = match m.depth {
                        0 | 1 => l1.clone().downcast::<T>(),
                        2 => l2.clone().downcast::<T>(),
                        _ => l3.clone().downcast::<T>(),
                    };
                    match t {
                        Some(t) => {
                            cx.val(probe_val(&t));
                            drop(t)
                        }
                        None => cx.note("LazyClone::downcast::<T>() returned None for the right type".into()),
                    }
                }
                LazyUse::DropUnused => {
                    let (_, d0, c0) = reg::event_counts();
                    let _ = with_depth!(|l| drop(l));
                    let (_, d1, c1) = reg::event_counts();
                    if (d0, c0) != (d1, c1) {
                        cx.note("dropping an unconsumed lazy clone ran user code".into());
                    }
                }
            }
        }
        let (_, d0, c0) = reg::event_counts();
        drop(l3);
        drop(l2);
        drop(l1b);
        drop(l1);
        let (_, d1, c1) = reg::event_counts();
        if (d0, c0) != (d1, c1) {
            cx.note("dropping lazy clones ran user code".into());
        }
    }
    let src = cx.vec(m.w);
    match m.kind {
        LazySrc::Ref => {
            let r = src.at(m.j);
            uses(cx, &*r, m)
        }
        LazySrc::Mut => {
            let r = src.at_mut(m.j);
            uses(cx, &*r, m)
        }
        LazySrc::Pop => {
            let h = src.pop().expect("HARNESS: pop source");
            uses(cx, &h, m);
            drop(h)
        }
        LazySrc::Remove => {
            let h = src.remove(m.j);
            uses(cx, &h, m);
            drop(h)
        }
        LazySrc::SwapRemove => {
            let h = src.swap_remove(m.j);
            uses(cx, &h, m);
            drop(h)
        }
        LazySrc::Drained => {
            let mut d = src.drain(m.j..m.j + 1);
            let e = d.next().expect("HARNESS: drained source");
            uses(cx, &e, m);
            drop(e);
            drop(d)
        }
    }
}

impl<T: Elem + SatisfyTraits<Tr>, M: MemCaps, Tr: ?Sized + TrCaps> Rig<T, M, Tr> {
    pub fn new(nvecs: usize) -> Self {
        let fixed_cap = M::fixed_cap(size_of::<T>());
        let cfg = CfgInfo {
            name: format!("{}:{}:{}", T::NAME, M::NAME, Tr::NAME),
            elem: elem_info::<T>(),
            mem: M::KIND,
            mem_name: M::NAME,
            traits: Tr::NAME,
            cloneable: Tr::CLONEABLE,
            resizable: M::RESIZABLE,
            fixed_cap,
        };
        let mut vecs = Vec::with_capacity(nvecs);
        for _ in 0..nvecs {
            monalloc::window_open();
            let v = M::new_vec::<Tr, T>(0);
            monalloc::window_close();
            vecs.push(v);
        }
        Rig { vecs, cfg, _p: PhantomData }
    }
    pub fn vec_ref(&self, v: usize) -> &AnyVec<Tr, M> {
        &self.vecs[v]
    }
    pub fn vec_mut(&mut self, v: usize) -> &mut AnyVec<Tr, M> {
        &mut self.vecs[v]
    }
}

impl<T: Elem + SatisfyTraits<Tr>, M: MemCaps, Tr: ?Sized + TrCaps> DynRig for Rig<T, M, Tr> {
    fn cfg(&self) -> &CfgInfo {
        &self.cfg
    }
    fn nvecs(&self) -> usize {
        self.vecs.len()
    }
    fn exec(&mut self, op: &Op) -> Outcome {
        let mut out = Outcome::default();
        out.vals.reserve(16);
        out.lens.reserve(16);
        let n = self.vecs.len();
        let base = self.vecs.as_mut_ptr();
        let find_target = match op {
            Op::Drain { v, end, .. } | Op::Splice { v, end, .. } | Op::IterScript { v, end, .. } => end.index().and_then(|j| {
                let av = &self.vecs[*v];
                if av.len() > av.capacity() {
                    return None;
                }
                av.downcast_ref::<T>().and_then(|tv| tv.as_slice().get(j).and_then(|e| e.probe().ok()))
            }),
            _ => None,
        };
        let r = {
            let mut cx: Cx<T, M, Tr> = Cx { base, n, out: &mut out, find_target, _p: PhantomData };
            monalloc::window_open();
            let r = catch_unwind(AssertUnwindSafe(|| cx.exec_inner(op)));
            monalloc::window_reset();
            r
        };
        if r.is_err() {
            monalloc::panic_end();
            out.panicked = true;
            out.panic_msg = take_panic_msg();
        }
        out
    }
    fn snap(&self, v: usize) -> Snap {
        let av = &self.vecs[v];
        let mut s = Snap {
            len: av.len(),
            cap: av.capacity(),
            base: av.as_bytes().as_ptr() as usize,
            typeid_ok: av.element_typeid() == TypeId::of::<T>(),
            layout_ok: av.element_layout() == std::alloc::Layout::new::<T>(),
            is_empty: av.is_empty(),
            vals: Vec::new(),
            bytes_base: av.as_bytes().as_ptr() as usize,
            bytes_len: av.as_bytes().len(),
            bytes_eq: true,
            misalign: (av.as_bytes().as_ptr() as usize) % std::mem::align_of::<T>(),
            typed_getters: None,
        };
        if s.len > s.cap || !s.typeid_ok || !s.layout_ok {
            // never read beyond what the backend owns
            return s;
        }
        if s.len > (1 << 26) {
            // an absurd length (possible for zero-sized elements, whose capacity is unbounded): do not walk it
            s.vals.push(Val::Garbage(s.len as u64));
            return s;
        }
        match av.downcast_ref::<T>() {
            Some(tv) => {
                s.typed_getters = Some((tv.len(), tv.capacity(), tv.is_empty(), tv.as_ptr() as usize));
                let sl = tv.as_slice();
                if sl.len() != s.len || (sl.as_ptr() as usize != s.base && size_of::<T>() != 0) {
                    s.vals.push(Val::Garbage(u64::MAX - 1));
                    return s;
                }
                s.vals.extend(sl.iter().map(probe_val));
                if s.bytes_len == s.len * size_of::<T>() && s.bytes_base == s.base {
                    let typed_bytes = unsafe { std::slice::from_raw_parts(sl.as_ptr() as *const u8, s.len * size_of::<T>()) };
                    s.bytes_eq = typed_bytes == av.as_bytes();
                }
            }
            None => s.typeid_ok = false,
        }
        s
    }
    fn erased_views(&self, v: usize) -> (Vec<Val>, Vec<Val>) {
        let av = &self.vecs[v];
        let len = av.len();
        let mut gets = Vec::with_capacity(len + 2);
        if len > av.capacity() || len > (1 << 26) {
            return (gets, Vec::new());
        }
        for i in 0..len.saturating_add(2) {
            gets.push(match av.get(i) {
                None => Val::None,
                Some(e) => e.downcast_ref::<T>().map(probe_val).unwrap_or(Val::Garbage(u64::MAX)),
            });
        }
        let mut its = Vec::with_capacity(len);
        let mut it = av.iter();
        for _ in 0..len.saturating_add(4) {
            match it.next() {
                None => break,
                Some(e) => its.push(e.downcast_ref::<T>().map(probe_val).unwrap_or(Val::Garbage(u64::MAX))),
            }
        }
        (gets, its)
    }
    fn reset_vec(&mut self, v: usize, cap: usize) {
        monalloc::window_open();
        let nv = M::new_vec::<Tr, T>(cap);
        self.vecs[v] = nv;
        monalloc::window_close();
    }
    fn teardown(&mut self) -> Option<String> {
        let vecs = std::mem::take(&mut self.vecs);
        let r = catch_unwind(AssertUnwindSafe(move || drop(vecs)));
        if r.is_err() {
            monalloc::panic_end();
            return Some(take_panic_msg());
        }
        None
    }
}


pub fn make_rig<T: Elem + SatisfyTraits<Tr>, M: MemCaps, Tr: ?Sized + TrCaps>(n: usize) -> BoxRig {
    Box::new(Rig::<T, M, Tr>::new(n))
}
