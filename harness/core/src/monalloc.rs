//! Instrumented `#[global_allocator]`: gives the built-in `Heap` backend the same treatment
//! as `GuardMem` (guard zones, poison, always-moving realloc, quarantine) and checks the
//! layouts the library presents.
//!
//! Attribution: an allocation is *attributed* (to the library) when the current thread has an
//! open window and is not inside a user scope (element payloads, panic runtime). `realloc` /
//! `dealloc` are attributed by block identity: the pointer is looked up in the side table.

use std::alloc::{GlobalAlloc, Layout, System};
use std::cell::Cell;
use std::sync::atomic::{AtomicBool, AtomicU8, Ordering};

pub const MODE_OFF: u8 = 0;
/// Side table + layout checks + always-moving realloc, no guard zones (tool modes).
pub const MODE_LOG: u8 = 1;
/// Additionally guard zones, poison fill and quarantine (native modes).
pub const MODE_GUARD: u8 = 2;

static MODE: AtomicU8 = AtomicU8::new(MODE_OFF);
static LOCK: AtomicBool = AtomicBool::new(false);

thread_local! {
    static WINDOW: Cell<u32> = const { Cell::new(0) };
    static USER: Cell<u32> = const { Cell::new(0) };
    /// Attributed allocation events on this thread (alloc + realloc), never reset by the allocator.
    static T_ALLOCS: Cell<u64> = const { Cell::new(0) };
}

pub fn set_mode(m: u8) {
    MODE.store(m, Ordering::SeqCst);
}
pub fn mode() -> u8 {
    MODE.load(Ordering::Relaxed)
}

pub fn window_open() {
    WINDOW.with(|w| w.set(w.get() + 1));
}
pub fn window_close() {
    WINDOW.with(|w| w.set(w.get().saturating_sub(1)));
}
pub fn window_depth() -> u32 {
    WINDOW.with(|w| w.get())
}
pub fn window_reset() {
    WINDOW.with(|w| w.set(0));
    USER.with(|u| u.set(0));
}
pub fn user_enter() {
    USER.with(|u| u.set(u.get() + 1));
}
pub fn user_exit() {
    USER.with(|u| u.set(u.get().saturating_sub(1)));
}
/// Run `f` with allocations marked as user allocations (not attributed).
pub fn user_scope<R>(f: impl FnOnce() -> R) -> R {
    user_enter();
    let r = f();
    user_exit();
    r
}
/// Called by the panic hook: everything allocated until the harness resets is panic runtime.
pub fn panic_begin() {
    USER.with(|u| u.set(u.get() + 1000));
}
pub fn panic_end() {
    USER.with(|u| u.set(u.get() % 1000));
}
pub fn thread_allocs() -> u64 {
    T_ALLOCS.with(|c| c.get())
}

#[inline]
fn attributed_now() -> bool {
    // allocations made while a panic is in flight belong to the panic runtime (the message of a
    // formatted panic is allocated before the panic hook runs)
    WINDOW.with(|w| w.get()) > 0 && USER.with(|u| u.get()) == 0 && !std::thread::panicking()
}

// ---------------------------------------------------------------------------------------------
// side table (fixed size, open addressing), protected by LOCK

const GUARD: usize = 64;
const POISON_FRESH: u8 = 0xA5;
const POISON_FREED: u8 = 0xDD;
const GUARD_BYTE: u8 = 0xFD;
const NSLOTS: usize = 1 << 12;
const QUARANTINE_MAX: usize = 512;
const QUARANTINE_BYTES_MAX: usize = 64 << 20;

#[derive(Clone, Copy, PartialEq, Eq)]
enum St {
    Empty,
    Tomb,
    Live,
    Quarantined,
}

#[derive(Clone, Copy)]
struct Slot {
    st: St,
    ptr: usize,
    /// real payload size
    size: usize,
    /// size of the layout the caller requested (what realloc/dealloc must present)
    req_size: usize,
    align: usize,
    base: usize,
    total: usize,
    base_align: usize,
    serial: u64,
}
const EMPTY_SLOT: Slot = Slot { st: St::Empty, ptr: 0, size: 0, req_size: 0, align: 0, base: 0, total: 0, base_align: 0, serial: 0 };

#[derive(Clone, Copy, Debug, Default)]
pub struct Stats {
    pub allocs: u64,
    pub reallocs: u64,
    pub deallocs: u64,
    pub live: u64,
    pub max_live: u64,
    pub live_bytes: u64,
    pub invalid_layouts: u64,
    pub layout_mismatch: u64,
    pub guard_hits: u64,
    pub quarantine_hits: u64,
    pub unknown_free: u64,
    pub scans: u64,
    pub serial: u64,
    pub quarantined: u64,
    pub quarantined_bytes: u64,
}

#[derive(Clone, Copy, Debug)]
pub struct Event {
    /// 'a' alloc, 'r' realloc, 'd' dealloc, 'I' invalid layout, 'M' layout mismatch,
    /// 'G' guard damaged, 'Q' quarantined block modified
    pub kind: u8,
    pub ptr: usize,
    pub size: usize,
    pub align: usize,
    pub aux: usize,
    pub aux2: usize,
}
const EVQ: usize = 1024;

struct Table {
    slots: [Slot; NSLOTS],
    stats: Stats,
    ev: [Event; EVQ],
    ev_n: usize,
    ev_lost: u64,
    tombs: usize,
}

struct TableCell(std::cell::UnsafeCell<Table>);
unsafe impl Sync for TableCell {}
static TABLE: TableCell = TableCell(std::cell::UnsafeCell::new(Table {
    slots: [EMPTY_SLOT; NSLOTS],
    stats: Stats {
        allocs: 0, reallocs: 0, deallocs: 0, live: 0, max_live: 0, live_bytes: 0, invalid_layouts: 0,
        layout_mismatch: 0, guard_hits: 0, quarantine_hits: 0, unknown_free: 0, scans: 0, serial: 0,
        quarantined: 0, quarantined_bytes: 0,
    },
    ev: [Event { kind: 0, ptr: 0, size: 0, align: 0, aux: 0, aux2: 0 }; EVQ],
    ev_n: 0,
    ev_lost: 0,
    tombs: 0,
}));
static SCRATCH: TableCell2 = TableCell2(std::cell::UnsafeCell::new([EMPTY_SLOT; NSLOTS]));
struct TableCell2(std::cell::UnsafeCell<[Slot; NSLOTS]>);
unsafe impl Sync for TableCell2 {}

struct Guard;
fn lock() -> Guard {
    while LOCK.compare_exchange_weak(false, true, Ordering::Acquire, Ordering::Relaxed).is_err() {
        std::hint::spin_loop();
    }
    Guard
}
impl Drop for Guard {
    fn drop(&mut self) {
        LOCK.store(false, Ordering::Release);
    }
}
#[allow(clippy::mut_from_ref)]
unsafe fn table(_g: &Guard) -> &mut Table {
    &mut *TABLE.0.get()
}

impl Table {
    fn hash(ptr: usize) -> usize {
        (crate::util::mix64(ptr as u64) as usize) & (NSLOTS - 1)
    }
    fn find(&self, ptr: usize) -> Option<usize> {
        let mut i = Self::hash(ptr);
        for _ in 0..NSLOTS {
            match self.slots[i].st {
                St::Empty => return None,
                St::Live | St::Quarantined if self.slots[i].ptr == ptr => return Some(i),
                _ => {}
            }
            i = (i + 1) & (NSLOTS - 1);
        }
        None
    }
    fn insert(&mut self, s: Slot) -> bool {
        let mut i = Self::hash(s.ptr);
        for _ in 0..NSLOTS {
            match self.slots[i].st {
                St::Empty | St::Tomb => {
                    self.slots[i] = s;
                    return true;
                }
                _ => {}
            }
            i = (i + 1) & (NSLOTS - 1);
        }
        false
    }
    /// Drop tombstones (called with the lock held).
    fn maybe_rehash(&mut self) {
        if self.tombs < NSLOTS / 4 {
            return;
        }
        let scratch = unsafe { &mut *SCRATCH.0.get() };
        let mut n = 0;
        for s in self.slots.iter_mut() {
            if matches!(s.st, St::Live | St::Quarantined) {
                scratch[n] = *s;
                n += 1;
            }
            *s = EMPTY_SLOT;
        }
        self.tombs = 0;
        for k in 0..n {
            let s = scratch[k];
            self.insert(s);
        }
    }
    fn event(&mut self, e: Event) {
        if self.ev_n < EVQ {
            self.ev[self.ev_n] = e;
            self.ev_n += 1;
        } else {
            self.ev_lost += 1;
        }
    }
}

#[inline]
fn layout_valid(size: usize, align: usize) -> bool {
    align.is_power_of_two() && size <= (isize::MAX as usize) - (align - 1)
}

unsafe fn raw_alloc(size: usize, align: usize, guard: bool) -> Option<(*mut u8, usize, usize, usize)> {
    // returns (ptr, base, total, base_align)
    if guard {
        let pad = if align > GUARD { align } else { GUARD.div_ceil(align) * align };
        let total = pad + size + GUARD;
        let base_align = align.max(16);
        let base = System.alloc(Layout::from_size_align(total, base_align).ok()?);
        if base.is_null() {
            return None;
        }
        std::ptr::write_bytes(base, GUARD_BYTE, pad);
        std::ptr::write_bytes(base.add(pad), POISON_FRESH, size);
        std::ptr::write_bytes(base.add(pad + size), GUARD_BYTE, GUARD);
        Some((base.add(pad), base as usize, total, base_align))
    } else {
        let p = System.alloc(Layout::from_size_align(size, align).ok()?);
        if p.is_null() {
            return None;
        }
        Some((p, p as usize, size, align))
    }
}

unsafe fn guards_intact(s: &Slot) -> bool {
    if s.base == s.ptr {
        return true;
    }
    let pad = s.ptr - s.base;
    let b = s.base as *const u8;
    for i in 0..pad {
        if *b.add(i) != GUARD_BYTE {
            return false;
        }
    }
    let t = (s.ptr + s.size) as *const u8;
    for i in 0..GUARD {
        if *t.add(i) != GUARD_BYTE {
            return false;
        }
    }
    true
}
unsafe fn freed_fill_intact(s: &Slot) -> bool {
    let p = s.ptr as *const u8;
    for i in 0..s.size {
        if *p.add(i) != POISON_FREED {
            return false;
        }
    }
    true
}

pub struct MonAlloc;

impl MonAlloc {
    unsafe fn attributed_alloc(&self, layout: Layout, mode: u8, is_realloc: bool) -> *mut u8 {
        let (mut size, align) = (layout.size(), layout.align());
        let g = lock();
        let t = table(&g);
        if !layout_valid(size, align) {
            t.stats.invalid_layouts += 1;
            t.event(Event { kind: b'I', ptr: 0, size, align, aux: 0, aux2: 0 });
            // satisfy with a small real block so the process survives to report
            size = 64;
        }
        let guard = mode == MODE_GUARD;
        let align_eff = if align.is_power_of_two() && align <= (1 << 20) { align } else { 16 };
        let Some((real_ptr, base, total, base_align)) = raw_alloc(size, align_eff, guard) else {
            return std::ptr::null_mut();
        };
        let ptr = real_ptr as usize;
        t.stats.serial += 1;
        let serial = t.stats.serial;
        // the *requested* layout is what later realloc/dealloc must present
        t.maybe_rehash();
        let ok = t.insert(Slot { st: St::Live, ptr, size, req_size: layout.size(), align, base, total, base_align, serial });
        debug_assert!(ok);
        if is_realloc {
            t.stats.reallocs += 1;
        } else {
            t.stats.allocs += 1;
        }
        t.stats.live += 1;
        t.stats.live_bytes += layout.size().min(size) as u64;
        if t.stats.live > t.stats.max_live {
            t.stats.max_live = t.stats.live;
        }
        t.event(Event { kind: if is_realloc { b'r' } else { b'a' }, ptr, size: layout.size(), align, aux: serial as usize, aux2: 0 });
        T_ALLOCS.with(|c| c.set(c.get() + 1));
        real_ptr
    }

    /// Retire an attributed block. Returns true when the pointer was one of ours.
    unsafe fn attributed_free(&self, ptr: *mut u8, layout: Layout, mode: u8, by_realloc: bool) -> bool {
        let g = lock();
        let t = table(&g);
        let Some(i) = t.find(ptr as usize) else { return false };
        let s = t.slots[i];
        if s.st == St::Quarantined {
            // double free of a library block
            t.stats.unknown_free += 1;
            t.event(Event { kind: b'F', ptr: ptr as usize, size: layout.size(), align: layout.align(), aux: s.serial as usize, aux2: 0 });
            return true;
        }
        if s.req_size != layout.size() || s.align != layout.align() {
            t.stats.layout_mismatch += 1;
            t.event(Event { kind: b'M', ptr: ptr as usize, size: layout.size(), align: layout.align(), aux: s.req_size, aux2: s.align });
        }
        if !guards_intact(&s) {
            t.stats.guard_hits += 1;
            t.event(Event { kind: b'G', ptr: ptr as usize, size: s.size, align: s.align, aux: s.serial as usize, aux2: 0 });
        }
        if !by_realloc {
            t.stats.deallocs += 1;
            t.event(Event { kind: b'd', ptr: ptr as usize, size: layout.size(), align: layout.align(), aux: s.serial as usize, aux2: 0 });
        }
        t.stats.live -= 1;
        t.stats.live_bytes -= s.req_size.min(s.size) as u64;
        if mode == MODE_GUARD && s.base != s.ptr {
            std::ptr::write_bytes(s.ptr as *mut u8, POISON_FREED, s.size);
            t.slots[i].st = St::Quarantined;
            t.stats.quarantined += 1;
            t.stats.quarantined_bytes += s.total as u64;
            // evict oldest while over budget
            while t.stats.quarantined as usize > QUARANTINE_MAX
                || t.stats.quarantined_bytes as usize > QUARANTINE_BYTES_MAX
            {
                let mut best: Option<usize> = None;
                for (j, sl) in t.slots.iter().enumerate() {
                    if sl.st == St::Quarantined && best.map_or(true, |b| sl.serial < t.slots[b].serial) {
                        best = Some(j);
                    }
                }
                let Some(j) = best else { break };
                let q = t.slots[j];
                if !freed_fill_intact(&q) || !guards_intact(&q) {
                    t.stats.quarantine_hits += 1;
                    t.event(Event { kind: b'Q', ptr: q.ptr, size: q.size, align: q.align, aux: q.serial as usize, aux2: 0 });
                }
                System.dealloc(q.base as *mut u8, Layout::from_size_align_unchecked(q.total, q.base_align));
                t.slots[j].st = St::Tomb;
                t.tombs += 1;
                t.stats.quarantined -= 1;
                t.stats.quarantined_bytes -= q.total as u64;
            }
        } else {
            t.slots[i].st = St::Tomb;
            t.tombs += 1;
            if s.base == s.ptr {
                // unguarded block: release through the caller's own pointer (keeps its provenance)
                System.dealloc(ptr, Layout::from_size_align_unchecked(s.total, s.base_align));
            } else {
                System.dealloc(s.base as *mut u8, Layout::from_size_align_unchecked(s.total, s.base_align));
            }
        }
        true
    }
}

unsafe impl GlobalAlloc for MonAlloc {
    unsafe fn alloc(&self, layout: Layout) -> *mut u8 {
        let mode = MODE.load(Ordering::Relaxed);
        if mode != MODE_OFF && attributed_now() {
            return self.attributed_alloc(layout, mode, false);
        }
        System.alloc(layout)
    }
    unsafe fn alloc_zeroed(&self, layout: Layout) -> *mut u8 {
        let mode = MODE.load(Ordering::Relaxed);
        if mode != MODE_OFF && attributed_now() {
            let p = self.attributed_alloc(layout, mode, false);
            if !p.is_null() && layout_valid(layout.size(), layout.align()) {
                std::ptr::write_bytes(p, 0, layout.size());
            }
            return p;
        }
        System.alloc_zeroed(layout)
    }
    unsafe fn dealloc(&self, ptr: *mut u8, layout: Layout) {
        let mode = MODE.load(Ordering::Relaxed);
        if mode != MODE_OFF && self.attributed_free(ptr, layout, mode, false) {
            return;
        }
        if mode != MODE_OFF && attributed_now() && (layout.size() == 0 || (ptr as usize) < 4096) {
            // the library releases something that was never allocated (a zero-sized "block", a dangling sentinel address):
            // recorded, and not forwarded to the system allocator
            let g = lock();
            let t = table(&g);
            t.stats.invalid_layouts += 1;
            t.event(Event { kind: b'I', ptr: ptr as usize, size: layout.size(), align: layout.align(), aux: 0, aux2: 0 });
            return;
        }
        System.dealloc(ptr, layout)
    }
    unsafe fn realloc(&self, ptr: *mut u8, layout: Layout, new_size: usize) -> *mut u8 {
        let mode = MODE.load(Ordering::Relaxed);
        if mode != MODE_OFF {
            let known = {
                let g = lock();
                let t = table(&g);
                t.find(ptr as usize).map(|i| t.slots[i])
            };
            if let Some(s) = known {
                // always move
                let new_layout = Layout::from_size_align_unchecked(new_size, layout.align());
                let np = self.attributed_alloc(new_layout, mode, true);
                if np.is_null() {
                    return np;
                }
                let n = s.size.min(new_size).min(if layout_valid(new_size, layout.align()) { usize::MAX } else { 64 });
                if s.st == St::Live {
                    std::ptr::copy_nonoverlapping(ptr, np, n);
                }
                self.attributed_free(ptr, layout, mode, true);
                return np;
            }
        }
        System.realloc(ptr, layout, new_size)
    }
}

// ---------------------------------------------------------------------------------------------
// harness-side queries

pub fn stats() -> Stats {
    let g = lock();
    unsafe { table(&g).stats }
}

/// Drain queued events.
pub fn drain_events() -> (Vec<Event>, u64) {
    user_enter();
    let r = {
        let g = lock();
        let t = unsafe { table(&g) };
        let n = t.ev_n;
        let l = t.ev_lost;
        t.ev_lost = 0;
        t.ev_n = 0;
        if n == 0 {
            (Vec::new(), l)
        } else {
            // allocating while holding the lock is fine: a non-attributed allocation never takes it
            (t.ev[..n].to_vec(), l)
        }
    };
    user_exit();
    r
}

/// Is `ptr..ptr+bytes` inside a live attributed block aligned to `align`?
/// (A vector's storage starts at the start of its allocation, so this is a table lookup.)
pub fn covers(ptr: usize, bytes: usize, align: usize) -> Option<(usize, usize)> {
    let g = lock();
    let t = unsafe { table(&g) };
    let i = t.find(ptr)?;
    let s = t.slots[i];
    if s.st == St::Live && bytes <= s.size.min(s.req_size) && s.ptr % align == 0 {
        return Some((s.size, s.align));
    }
    None
}

/// Verify guard zones of live blocks and fill of quarantined blocks. Returns number of damaged blocks.
pub fn scan() -> u64 {
    let g = lock();
    let t = unsafe { table(&g) };
    t.stats.scans += 1;
    let mut bad = 0;
    for j in 0..NSLOTS {
        let s = t.slots[j];
        match s.st {
            St::Live => {
                if unsafe { !guards_intact(&s) } {
                    bad += 1;
                    t.stats.guard_hits += 1;
                    t.event(Event { kind: b'G', ptr: s.ptr, size: s.size, align: s.align, aux: s.serial as usize, aux2: 0 });
                    // repair so that one hit is reported once
                    unsafe {
                        let pad = s.ptr - s.base;
                        std::ptr::write_bytes(s.base as *mut u8, GUARD_BYTE, pad);
                        std::ptr::write_bytes((s.ptr + s.size) as *mut u8, GUARD_BYTE, GUARD);
                    }
                }
            }
            St::Quarantined => {
                if unsafe { !freed_fill_intact(&s) || !guards_intact(&s) } {
                    bad += 1;
                    t.stats.quarantine_hits += 1;
                    t.event(Event { kind: b'Q', ptr: s.ptr, size: s.size, align: s.align, aux: s.serial as usize, aux2: 0 });
                    unsafe {
                        std::ptr::write_bytes(s.ptr as *mut u8, POISON_FREED, s.size);
                        let pad = s.ptr - s.base;
                        std::ptr::write_bytes(s.base as *mut u8, GUARD_BYTE, pad);
                        std::ptr::write_bytes((s.ptr + s.size) as *mut u8, GUARD_BYTE, GUARD);
                    }
                }
            }
            _ => {}
        }
    }
    bad
}

/// Release all quarantined blocks (after a final scan).
pub fn flush_quarantine() {
    let g = lock();
    let t = unsafe { table(&g) };
    if t.stats.quarantined == 0 && (t.stats.live != 0 || t.tombs == 0) {
        return;
    }
    for j in 0..NSLOTS {
        let s = t.slots[j];
        if s.st == St::Quarantined {
            if unsafe { !freed_fill_intact(&s) || !guards_intact(&s) } {
                t.stats.quarantine_hits += 1;
                t.event(Event { kind: b'Q', ptr: s.ptr, size: s.size, align: s.align, aux: s.serial as usize, aux2: 0 });
            }
            unsafe { System.dealloc(s.base as *mut u8, Layout::from_size_align_unchecked(s.total, s.base_align)) };
            t.slots[j].st = St::Tomb;
            t.tombs += 1;
        }
    }
    t.stats.quarantined = 0;
    t.stats.quarantined_bytes = 0;
    // compact tombstones when nothing is live
    if t.stats.live == 0 {
        for s in t.slots.iter_mut() {
            if s.st == St::Tomb {
                s.st = St::Empty;
            }
        }
        t.tombs = 0;
    }
}

/// Debug: list live attributed blocks (ptr, requested size, align, serial).
pub fn live_list() -> Vec<(usize, usize, usize, u64)> {
    let mut buf = [(0usize, 0usize, 0usize, 0u64); 64];
    let mut n = 0;
    {
        let g = lock();
        let t = unsafe { table(&g) };
        for s in t.slots.iter() {
            if s.st == St::Live && n < 64 {
                buf[n] = (s.ptr, s.req_size, s.align, s.serial);
                n += 1;
            }
        }
    }
    buf[..n].to_vec()
}
