//! Element zoo: identity-tagged element types that act as the primary sensors.
//!
//! Every type is padding-free, `Clone + Send + Sync`, and (where the layout has room)
//! carries `id` plus `canary = mix(id)` so that any observation of an element can tell a
//! real element from poison, stale bytes or a torn copy.

use crate::reg::{self, Id};
use crate::util::mix64;

pub trait Elem: 'static + Sized + Clone + Send + Sync {
    const NAME: &'static str;
    const TAG: u32;
    /// Width of the identity field; ids are in `0..2^ID_BITS` (0 bits: by count only).
    const ID_BITS: u32;
    /// Has drop glue and is registered in the identity registry.
    const TRACKED: bool;
    /// Owns a heap payload (pointer-carrying bytes).
    const HEAP: bool;
    fn make(id: Id) -> Self;
    /// `Ok(id)` when the bytes are a well-formed element, `Err(raw)` otherwise.
    fn probe(&self) -> Result<Id, u64>;
    /// Harness-side in-place mutation to another identity (not user code for the injector).
    fn set_id(&mut self, id: Id);
}

#[inline]
fn untracked_clone(tag: u32, id: Id) {
    reg::user_call("clone");
    reg::with(|r| {
        r.clones += 1;
        r.clone_log.push((tag, id));
    });
}

fn rename(tag: u32, old: Id, new: Id) {
    reg::with(|r| {
        let c = r.live.entry((tag, old)).or_insert(0);
        *c -= 1;
        if *c == 0 {
            r.live.remove(&(tag, old));
        }
        *r.live.entry((tag, new)).or_insert(0) += 1;
    });
}

// ---------------------------------------------------------------------------------------------
// zero-sized

macro_rules! zst {
    ($name:ident, $tag:expr, $tracked:expr $(, #[$attr:meta])?) => {
        $(#[$attr])?
        pub struct $name;
        impl Clone for $name {
            fn clone(&self) -> Self {
                if $tracked {
                    reg::user_call("clone");
                    reg::on_clone($tag, 0, true, stringify!($name));
                } else {
                    untracked_clone($tag, 0);
                }
                $name
            }
        }
        impl Elem for $name {
            const NAME: &'static str = stringify!($name);
            const TAG: u32 = $tag;
            const ID_BITS: u32 = 0;
            const TRACKED: bool = $tracked;
            const HEAP: bool = false;
            fn make(_id: Id) -> Self {
                if $tracked {
                    reg::on_make($tag, 0);
                }
                $name
            }
            fn probe(&self) -> Result<Id, u64> {
                Ok(0)
            }
            fn set_id(&mut self, _id: Id) {}
        }
    };
}
zst!(Z0, 1, false);
zst!(Z0d, 2, true);
zst!(Z0a64, 3, false, #[repr(align(64))]);
impl Drop for Z0d {
    fn drop(&mut self) {
        reg::on_drop(2, 0, true, "Z0d");
        reg::user_call("drop");
    }
}

// ---------------------------------------------------------------------------------------------
// tiny integers (no room for a canary)

macro_rules! tiny {
    ($name:ident, $tag:expr, $int:ty, $bits:expr, $tracked:expr) => {
        #[repr(transparent)]
        pub struct $name(pub $int);
        impl Clone for $name {
            fn clone(&self) -> Self {
                if $tracked {
                    reg::user_call("clone");
                    reg::on_clone($tag, self.0 as Id, true, stringify!($name));
                } else {
                    untracked_clone($tag, self.0 as Id);
                }
                $name(self.0)
            }
        }
        impl Elem for $name {
            const NAME: &'static str = stringify!($name);
            const TAG: u32 = $tag;
            const ID_BITS: u32 = $bits;
            const TRACKED: bool = $tracked;
            const HEAP: bool = false;
            fn make(id: Id) -> Self {
                debug_assert!(id < (1u64 << $bits));
                if $tracked {
                    reg::on_make($tag, id);
                }
                $name(id as $int)
            }
            fn probe(&self) -> Result<Id, u64> {
                Ok(self.0 as Id)
            }
            fn set_id(&mut self, id: Id) {
                if $tracked {
                    rename($tag, self.0 as Id, id);
                }
                self.0 = id as $int;
            }
        }
    };
}
tiny!(U1, 4, u8, 8, false);
tiny!(U1d, 5, u8, 8, true);
tiny!(U2, 6, u16, 16, false);
impl Drop for U1d {
    fn drop(&mut self) {
        reg::on_drop(5, self.0 as Id, true, "U1d");
        reg::user_call("drop");
    }
}

// ---------------------------------------------------------------------------------------------
// 3 bytes, align 1: 16-bit id + 8-bit canary

macro_rules! p3 {
    ($name:ident, $tag:expr, $tracked:expr) => {
        #[repr(transparent)]
        pub struct $name(pub [u8; 3]);
        impl $name {
            #[inline]
            fn enc(id: Id) -> [u8; 3] {
                [id as u8, (id >> 8) as u8, (mix64(id ^ $tag) as u8) | 1]
            }
        }
        impl Clone for $name {
            fn clone(&self) -> Self {
                let p = self.probe();
                if $tracked {
                    reg::user_call("clone");
                    reg::on_clone($tag, p.unwrap_or_else(|r| r), p.is_ok(), stringify!($name));
                } else {
                    untracked_clone($tag, p.unwrap_or_else(|r| r));
                }
                $name(self.0)
            }
        }
        impl Elem for $name {
            const NAME: &'static str = stringify!($name);
            const TAG: u32 = $tag;
            const ID_BITS: u32 = 16;
            const TRACKED: bool = $tracked;
            const HEAP: bool = false;
            fn make(id: Id) -> Self {
                debug_assert!(id < (1u64 << 16));
                if $tracked {
                    reg::on_make($tag, id);
                }
                $name(Self::enc(id))
            }
            fn probe(&self) -> Result<Id, u64> {
                let id = self.0[0] as Id | ((self.0[1] as Id) << 8);
                if Self::enc(id) == self.0 {
                    Ok(id)
                } else {
                    Err(id | ((self.0[2] as u64) << 16))
                }
            }
            fn set_id(&mut self, id: Id) {
                if $tracked {
                    if let Ok(old) = self.probe() {
                        rename($tag, old, id);
                    }
                }
                self.0 = Self::enc(id);
            }
        }
    };
}
p3!(P3, 7, false);
p3!(P3d, 8, true);
impl Drop for P3d {
    fn drop(&mut self) {
        let p = self.probe();
        reg::on_drop(8, p.unwrap_or_else(|r| r), p.is_ok(), "P3d");
        reg::user_call("drop");
    }
}

// ---------------------------------------------------------------------------------------------
// word-array types: id in word 0, canaries fill the rest (no padding)

macro_rules! words {
    ($name:ident, $tag:expr, $word:ty, $n:expr, $idbits:expr, $tracked:expr $(, #[$attr:meta])?) => {
        #[repr(C)]
        $(#[$attr])?
        pub struct $name(pub [$word; $n]);
        impl $name {
            #[inline]
            fn enc(id: Id) -> [$word; $n] {
                let mut w = [0 as $word; $n];
                if $n == 1 {
                    // single word: low half id, high half canary
                    let half = (core::mem::size_of::<$word>() * 4) as u32;
                    let lo = id & ((1u64 << half) - 1);
                    let can = (mix64(id ^ ($tag as u64) << 40) | 1) & ((1u64 << half) - 1);
                    w[0] = (lo | (can << half)) as $word;
                } else {
                    w[0] = id as $word;
                    let mut i = 1;
                    while i < $n {
                        w[i] = (mix64(id ^ (($tag as u64) << 40) ^ ((i as u64) << 56)) | 1) as $word;
                        i += 1;
                    }
                }
                w
            }
            #[inline]
            fn raw_id(&self) -> Id {
                if $n == 1 {
                    let half = (core::mem::size_of::<$word>() * 4) as u32;
                    (self.0[0] as u64) & ((1u64 << half) - 1)
                } else {
                    self.0[0] as u64
                }
            }
        }
        impl Clone for $name {
            fn clone(&self) -> Self {
                let p = self.probe();
                if $tracked {
                    reg::user_call("clone");
                    reg::on_clone($tag, p.unwrap_or_else(|r| r), p.is_ok(), stringify!($name));
                } else {
                    untracked_clone($tag, p.unwrap_or_else(|r| r));
                }
                $name(self.0)
            }
        }
        impl Elem for $name {
            const NAME: &'static str = stringify!($name);
            const TAG: u32 = $tag;
            const ID_BITS: u32 = $idbits;
            const TRACKED: bool = $tracked;
            const HEAP: bool = false;
            fn make(id: Id) -> Self {
                debug_assert!(($idbits as u32) >= 64 || id < (1u64 << $idbits));
                if $tracked {
                    reg::on_make($tag, id);
                }
                $name(Self::enc(id))
            }
            fn probe(&self) -> Result<Id, u64> {
                let id = self.raw_id();
                if Self::enc(id) == self.0 {
                    Ok(id)
                } else {
                    Err(self.0[0] as u64)
                }
            }
            fn set_id(&mut self, id: Id) {
                if $tracked {
                    if let Ok(old) = self.probe() {
                        rename($tag, old, id);
                    }
                }
                self.0 = Self::enc(id);
            }
        }
    };
}
macro_rules! words_drop {
    ($name:ident, $tag:expr) => {
        impl Drop for $name {
            fn drop(&mut self) {
                let p = self.probe();
                reg::on_drop($tag, p.unwrap_or_else(|r| r), p.is_ok(), stringify!($name));
                reg::user_call("drop");
            }
        }
    };
}

words!(W8, 9, u64, 1, 32, false);
words!(W8d, 10, u64, 1, 32, true);
words_drop!(W8d, 10);
words!(W8d2, 11, u64, 1, 32, true);
words_drop!(W8d2, 11);
words!(T12, 12, u32, 3, 32, false);
words!(T12d, 13, u32, 3, 32, true);
words_drop!(T12d, 13);
words!(S16d, 14, u64, 2, 48, true);
words_drop!(S16d, 14);
words!(S16d2, 15, u64, 2, 48, true);
words_drop!(S16d2, 15);
words!(Q16, 16, u64, 2, 48, false, #[repr(align(16))]);
words!(A32d, 17, u64, 4, 48, true, #[repr(align(32))]);
words_drop!(A32d, 17);
words!(A64d, 18, u64, 8, 48, true, #[repr(align(64))]);
words_drop!(A64d, 18);
words!(L160d, 19, u64, 20, 48, true);
words_drop!(L160d, 19);
// sizes above 32 / 64 bytes that are not a multiple of them (chunked copy / swap remainders)
words!(M40d, 22, u64, 5, 48, true);
words_drop!(M40d, 22);
words!(H72d, 23, u64, 9, 48, true);
words_drop!(H72d, 23);
// larger than 64 KiB (sizes and offsets that do not fit 16 bits); only used by the scale workloads
words!(G65Kd, 26, u64, 8200, 48, true);
words_drop!(G65Kd, 26);

// ---------------------------------------------------------------------------------------------
// heap-owning types: a duplicated / lost payload is also a tool report (double free / leak)

pub struct B8(pub std::mem::ManuallyDrop<Box<(u64, u64)>>);
impl B8 {
    fn can(id: Id) -> u64 {
        mix64(id ^ (20u64 << 40)) | 1
    }
    /// The payload pointer as an integer (read without dereferencing it).
    #[inline]
    fn addr(&self) -> usize {
        unsafe { std::mem::transmute_copy::<std::mem::ManuallyDrop<Box<(u64, u64)>>, usize>(&self.0) }
    }
    fn fresh(v: (u64, u64)) -> Self {
        let b = crate::monalloc::user_scope(|| B8(std::mem::ManuallyDrop::new(Box::new(v))));
        if reg::safe_payloads() {
            reg::payload_add(b.addr());
        }
        b
    }
}
impl Clone for B8 {
    fn clone(&self) -> Self {
        let p = self.probe();
        reg::user_call("clone");
        reg::on_clone(20, p.unwrap_or_else(|r| r), p.is_ok(), "B8");
        match p {
            Ok(id) => Self::fresh((id, Self::can(id))),
            Err(_) => Self::fresh((0, 0)),
        }
    }
}
impl Elem for B8 {
    const NAME: &'static str = "B8";
    const TAG: u32 = 20;
    const ID_BITS: u32 = 48;
    const TRACKED: bool = true;
    const HEAP: bool = true;
    fn make(id: Id) -> Self {
        reg::on_make(20, id);
        Self::fresh((id, Self::can(id)))
    }
    fn probe(&self) -> Result<Id, u64> {
        if reg::safe_payloads() && !reg::payload_known(self.addr()) {
            // garbage, or a payload that was already freed: never dereference it
            return Err(self.addr() as u64);
        }
        if self.0 .1 == Self::can(self.0 .0) {
            Ok(self.0 .0)
        } else {
            Err(self.0 .0)
        }
    }
    fn set_id(&mut self, id: Id) {
        if let Ok(old) = self.probe() {
            rename(20, old, id);
            **self.0 = (id, Self::can(id));
        }
    }
}
impl Drop for B8 {
    fn drop(&mut self) {
        if reg::safe_payloads() {
            let a = self.addr();
            if !reg::payload_known(a) {
                if reg::payload_was_freed(a) {
                    reg::violation("double-drop", format!("B8: an element whose heap payload {a:#x} was already freed is destroyed again"));
                    reg::with(|r| r.drops += 1);
                } else {
                    reg::on_drop(20, a as u64, false, "B8");
                }
                reg::user_call("drop");
                return; // the pointer is not ours to free
            }
            let p = self.probe();
            let legit = reg::on_drop(20, p.unwrap_or_else(|r| r), p.is_ok(), "B8");
            if legit && reg::payload_remove(a) {
                unsafe { std::mem::ManuallyDrop::drop(&mut self.0) };
            }
            reg::user_call("drop");
            return;
        }
        let p = self.probe();
        reg::on_drop(20, p.unwrap_or_else(|r| r), p.is_ok(), "B8");
        unsafe { std::mem::ManuallyDrop::drop(&mut self.0) };
        reg::user_call("drop");
    }
}

/// `String`-shaped: 24 bytes, id + canary + heap payload.
#[repr(C)]
pub struct S24d {
    pub id: u64,
    pub canary: u64,
    pub payload: std::mem::ManuallyDrop<Box<u8>>,
}
impl S24d {
    fn can(id: Id) -> u64 {
        mix64(id ^ (21u64 << 40)) | 1
    }
    #[inline]
    fn addr(&self) -> usize {
        unsafe { std::mem::transmute_copy::<std::mem::ManuallyDrop<Box<u8>>, usize>(&self.payload) }
    }
    fn fresh(id: Id, canary: u64, b: u8) -> Self {
        let v = crate::monalloc::user_scope(|| S24d { id, canary, payload: std::mem::ManuallyDrop::new(Box::new(b)) });
        if reg::safe_payloads() {
            reg::payload_add(v.addr());
        }
        v
    }
}
impl Clone for S24d {
    fn clone(&self) -> Self {
        let p = self.probe();
        reg::user_call("clone");
        reg::on_clone(21, p.unwrap_or_else(|r| r), p.is_ok(), "S24d");
        let b = if p.is_ok() { **self.payload } else { 0 };
        Self::fresh(self.id, self.canary, b)
    }
}
impl Elem for S24d {
    const NAME: &'static str = "S24d";
    const TAG: u32 = 21;
    const ID_BITS: u32 = 48;
    const TRACKED: bool = true;
    const HEAP: bool = true;
    fn make(id: Id) -> Self {
        reg::on_make(21, id);
        Self::fresh(id, Self::can(id), id as u8)
    }
    fn probe(&self) -> Result<Id, u64> {
        if self.canary != Self::can(self.id) {
            return Err(self.id);
        }
        if reg::safe_payloads() && !reg::payload_known(self.addr()) {
            return Err(self.id);
        }
        if **self.payload == self.id as u8 {
            Ok(self.id)
        } else {
            Err(self.id)
        }
    }
    fn set_id(&mut self, id: Id) {
        if let Ok(old) = self.probe() {
            rename(21, old, id);
            self.id = id;
            self.canary = Self::can(id);
            **self.payload = id as u8;
        }
    }
}
impl Drop for S24d {
    fn drop(&mut self) {
        // Do not dereference the payload unless the inline canary is intact.
        let ok = self.canary == Self::can(self.id);
        if reg::safe_payloads() {
            let a = self.addr();
            if ok && !reg::payload_known(a) && reg::payload_was_freed(a) {
                // intact inline part but the payload is gone: a bitwise duplicate being destroyed
                reg::on_drop(21, self.id, true, "S24d");
                reg::user_call("drop");
                return;
            }
            let known = reg::payload_known(a);
            let legit = reg::on_drop(21, self.id, ok && known, "S24d");
            if legit && reg::payload_remove(a) {
                unsafe { std::mem::ManuallyDrop::drop(&mut self.payload) };
            }
            reg::user_call("drop");
            return;
        }
        reg::on_drop(21, self.id, ok, "S24d");
        if ok {
            unsafe { std::mem::ManuallyDrop::drop(&mut self.payload) };
        }
        // garbage bytes: freeing `payload` would take the process down and hide the report
        reg::user_call("drop");
    }
}

pub fn elem_info<T: Elem>() -> ElemInfo {
    ElemInfo {
        name: T::NAME,
        tag: T::TAG,
        size: core::mem::size_of::<T>(),
        align: core::mem::align_of::<T>(),
        id_bits: T::ID_BITS,
        tracked: T::TRACKED,
        heap: T::HEAP,
        needs_drop: core::mem::needs_drop::<T>(),
    }
}

#[derive(Clone, Copy, Debug)]
pub struct ElemInfo {
    pub name: &'static str,
    pub tag: u32,
    pub size: usize,
    pub align: usize,
    pub id_bits: u32,
    pub tracked: bool,
    pub heap: bool,
    pub needs_drop: bool,
}
