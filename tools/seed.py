#!/usr/bin/env python3
"""Confirm a seeded change produced by an independent sub-agent, keep it under /verif/seeded/<id>/, and run checks against it.

  tools/seed.py confirm /tmp/wt_C10 A          validate in the scratch worktree and copy to /verif/seeded/C10-A
  tools/seed.py run C10-A [C10 C18 ...]        apply to /repo, run the quick checks (default: the property it breaks), undo
  tools/seed.py table                          print the detection table from seeded/*/result.json
"""
import json
import os
import shutil
import subprocess
import sys
import time

ROOT = os.path.dirname(os.path.dirname(os.path.abspath(__file__)))
SEEDED = os.path.join(ROOT, "seeded")


def sh(cmd, cwd=None, timeout=3600, env=None):
    e = dict(os.environ)
    e["CARGO_NET_OFFLINE"] = "true"
    e["VERIF_EVIDENCE_DIR"] = os.path.join(ROOT, "out", "evidence-scratch")
    if env:
        e.update(env)
    p = subprocess.run(cmd, shell=True, cwd=cwd, stdout=subprocess.PIPE, stderr=subprocess.STDOUT, text=True, timeout=timeout, env=e)
    return p.returncode, p.stdout


def confirm(wt, x):
    src = os.path.join(wt, f"MUTANT_{x}")
    meta = json.load(open(os.path.join(src, "meta.json")))
    prop = meta.get("property") or os.path.basename(wt).split("_")[-1]
    mid = f"{prop}-{x}"
    patch = os.path.join(src, "patch.diff")
    demo = os.path.join(src, "demo.rs")
    tdemo = os.path.join(wt, "tests", "zz_seeded_demo.rs")
    rec = {"id": mid, "property": prop}
    sh("git checkout -- src", cwd=wt)
    use_miri = "miri" in json.dumps(meta).lower() and "miri" in (meta.get("how_demo_was_run", "") + meta.get("needs_to_manifest", "")).lower()
    shutil.copy(demo, tdemo)
    try:
        rc0, out0 = sh("cargo test --offline --test zz_seeded_demo 2>&1 | tail -15", cwd=wt)
        ok_without = "test result: ok" in out0
        rc, out = sh(f"git apply {patch}", cwd=wt)
        if rc != 0:
            rec["error"] = "patch does not apply: " + out[-300:]
            return rec
        rc1, out1 = sh("cargo test --offline 2>&1 | grep -E '^test result|FAILED|error' | head -30", cwd=wt)
        lines = [l for l in out1.splitlines() if l.startswith("test result")]
        demo_failed_with = "FAILED" in out1
        # suite without the demo
        os.remove(tdemo)
        rc2, out2 = sh("cargo test --offline 2>&1 | grep -E '^test result|FAILED|error(\\[|:)' | head -30", cwd=wt)
        suite_ok = "FAILED" not in out2 and "error" not in out2 and out2.count("test result: ok") >= 8
        rec.update(demo_passes_without_change=ok_without, demo_fails_with_change=demo_failed_with, existing_suite_passes_with_change=suite_ok)
        if use_miri and not demo_failed_with:
            shutil.copy(demo, tdemo)
            rc3, out3 = sh("cargo +nightly miri test --offline --test zz_seeded_demo 2>&1 | tail -30", cwd=wt, env={"RUSTFLAGS": "--cfg any_vec_verif", "MIRIFLAGS": "-Zmiri-disable-isolation"})
            rec["demo_fails_with_change_under_miri"] = "Undefined Behavior" in out3 or "FAILED" in out3 or "error" in out3
    finally:
        if os.path.exists(tdemo):
            os.remove(tdemo)
        sh("git checkout -- src", cwd=wt)
    ok = rec.get("demo_passes_without_change") and (rec.get("demo_fails_with_change") or rec.get("demo_fails_with_change_under_miri")) and rec.get("existing_suite_passes_with_change")
    rec["confirmed"] = bool(ok)
    if ok:
        d = os.path.join(SEEDED, mid)
        os.makedirs(d, exist_ok=True)
        shutil.copy(patch, os.path.join(d, "patch.diff"))
        shutil.copy(demo, os.path.join(d, "demo.rs"))
        meta["id"] = mid
        meta["confirmation"] = {k: v for k, v in rec.items() if k not in ("id", "property")}
        meta["what_i_ran"] = "in a scratch worktree: demo without the change (passes), `git apply patch.diff`, `cargo test --offline` (existing suite passes), demo with the change (fails); then tools/seed.py run"
        json.dump(meta, open(os.path.join(d, "meta.json"), "w"), indent=1)
    return rec


def run_isolated(mid, props):
    """Same as run(), but /repo itself is left alone: a copy of it gets the patch and is bind-mounted over /repo in a
    private mount namespace for the duration of the check (used while a long background run is reading /repo)."""
    d = os.path.join(SEEDED, mid)
    meta = json.load(open(os.path.join(d, "meta.json")))
    props = props or [meta["property"]]
    slot = os.environ.get("SEED_SLOT", "")
    copy = "/tmp/repo_copy" + slot
    sh(f"rm -rf {copy} && mkdir -p {copy} && rsync -a --exclude target /repo/ {copy}/")
    rc, out = sh(f"git apply {os.path.join(d, 'patch.diff')}", cwd=copy)
    if rc != 0:
        print("patch does not apply: " + out)
        return 2
    results = {}
    for p in props:
        t0 = time.time()
        rc, out = sh(f"unshare -m bash -c 'mount --bind {copy} /repo && cd {ROOT} && python3 check.py {p} --tier quick'", timeout=3600,
                     env={"VERIF_TARGET_DIR": "/tmp/seed_target" + slot})
        vio = [l for l in out.splitlines() if l.startswith("VIOLATION")]
        first = ""
        lines = out.splitlines()
        for i, l in enumerate(lines):
            if l.startswith("VIOLATION") and i + 1 < len(lines):
                first = lines[i + 1].strip()[:300]
                break
        results[p] = dict(exit=rc, violations=len(vio), first=first, wall_s=round(time.time() - t0, 1),
                          tail=out.strip().splitlines()[-1][:300] if out.strip() else "")
        print(f"{mid} vs {p}: exit={rc} violations={len(vio)} {first[:160]}")
    sh(f"rm -rf {copy}")
    res_path = os.path.join(d, "result.json")
    old = json.load(open(res_path)) if os.path.exists(res_path) else {}
    old.update(results)
    json.dump(old, open(res_path, "w"), indent=1)
    return 0


def run(mid, props):
    if os.environ.get("SEED_ISOLATED"):
        return run_isolated(mid, props)
    d = os.path.join(SEEDED, mid)
    meta = json.load(open(os.path.join(d, "meta.json")))
    props = props or [meta["property"]]
    rc, out = sh("git status --porcelain", cwd="/repo")
    if out.strip():
        print("refusing: /repo has uncommitted changes:\n" + out)
        return 2
    rc, out = sh(f"git apply {os.path.join(d, 'patch.diff')}", cwd="/repo")
    if rc != 0:
        print("patch does not apply to /repo: " + out)
        return 2
    results = {}
    try:
        for p in props:
            t0 = time.time()
            rc, out = sh(f"python3 check.py {p} --tier quick", cwd=ROOT, timeout=3600)
            vio = [l for l in out.splitlines() if l.startswith("VIOLATION")]
            first = ""
            lines = out.splitlines()
            for i, l in enumerate(lines):
                if l.startswith("VIOLATION") and i + 1 < len(lines):
                    first = lines[i + 1].strip()[:300]
                    break
            results[p] = dict(exit=rc, violations=len(vio), first=first, wall_s=round(time.time() - t0, 1),
                              tail=out.strip().splitlines()[-1][:300] if out.strip() else "")
            print(f"{mid} vs {p}: exit={rc} violations={len(vio)} {first[:160]}")
    finally:
        sh("git checkout -- .", cwd="/repo")
    res_path = os.path.join(d, "result.json")
    old = json.load(open(res_path)) if os.path.exists(res_path) else {}
    old.update(results)
    json.dump(old, open(res_path, "w"), indent=1)
    return 0


def table():
    rows = []
    for mid in sorted(os.listdir(SEEDED)):
        d = os.path.join(SEEDED, mid)
        if not os.path.exists(os.path.join(d, "meta.json")):
            continue
        meta = json.load(open(os.path.join(d, "meta.json")))
        res = json.load(open(os.path.join(d, "result.json"))) if os.path.exists(os.path.join(d, "result.json")) else {}
        caught = [p for p, r in res.items() if r["exit"] == 1 and r["violations"] > 0]
        missed = [p for p, r in res.items() if r["exit"] == 0]
        rows.append((mid, meta["property"], ",".join(caught) or "-", ",".join(missed) or "-", (meta.get("what_it_breaks") or "")[:110].replace("|", "/")))
    print("| seeded change | breaks | caught by (quick) | silent | what it does |")
    print("|---|---|---|---|---|")
    for r in rows:
        print("| " + " | ".join(r) + " |")


if __name__ == "__main__":
    cmd = sys.argv[1]
    if cmd == "confirm":
        print(json.dumps(confirm(sys.argv[2], sys.argv[3]), indent=1))
    elif cmd == "run":
        sys.exit(run(sys.argv[2], sys.argv[3:]))
    elif cmd == "table":
        table()
