"""Execution modes and per-property check specifications (see DESIGN.md sections 1.8 and 3)."""
import re

CARGO = ["cargo", "build", "--offline", "--quiet"]


def classify_miri(err):
    if "Undefined Behavior" not in err and "memory leaked" not in err and "error:" not in err:
        return None
    if "Data race" in err or "data race" in err:
        return "race"
    if "memory leaked" in err:
        return "tool-leak"
    if re.search(r"(out-of-bounds|dangling|has been freed|use-after|uninitialized|alignment|unaligned|dereferenc)", err):
        return "tool-memory"
    if re.search(r"(Stacked Borrows|Tree Borrows|borrow)", err):
        return "tool-borrow"
    return "tool-memory"


def classify_asan(err):
    if "AddressSanitizer" not in err and "LeakSanitizer" not in err:
        return None
    if "LeakSanitizer" in err or "detected memory leaks" in err:
        return "tool-leak"
    return "tool-memory"


MODES = {
    # production semantics: wrapping arithmetic, no debug_assert, the real copy_bytes loop
    "rel": dict(build=CARGO + ["--profile", "relflags"], bin="relflags/hv"),
    # overflow checks, debug_assert, rustc's pointer checks
    "dbg": dict(build=CARGO, bin="debug/hv"),
    # real optimised build (thorough tier)
    "opt": dict(build=CARGO + ["--release"], bin="release/hv", setup=False),
}

BEHAVIOUR_ASSUMPTIONS = [
    "bounded: lengths, indices, replacement lengths and the configuration table listed in coverage; nothing is claimed outside them",
    "the small-scope induction argument assumes behaviour depends on the concrete state only through (len, capacity class, spare dirty/fresh); random long histories do not rely on it",
    "std::vec::Vec is the reference semantics; element identities are carried by the element types' own make/Clone/Drop",
]

CHECKS = {
    "C01": dict(
        level="exploration",
        rule="small-scope exhaustive: every element-wise operation instance (operation x index 0..=len+1 x value-source kind x sink kind x erased/typed path) "
             "from every abstract state (len<=L plus copy_bytes threshold lengths, capacity class, dirty spare) on every configuration, plus seeded random histories "
             "over three vectors; a case is non-trivial when it moved at least one element or was rejected at a boundary index; distinct = distinct case descriptors (hashed)",
        runs=[
            dict(mode="rel"),
            dict(mode="dbg", args=["--sub", "light"]),
            dict(mode="opt", tiers=("thorough",)),
        ],
        floors={"any": {"evaluations": 20000, "rejections": 500}},
        assumptions=BEHAVIOUR_ASSUMPTIONS,
    ),
}
