//! Block management and monitoring behind `GuardMem` (the trait impls are in the thin crate).
//!
//! Block layout `[guard | capacity x size payload | guard]`; payload aligned exactly to the
//! element alignment and (when possible) *not* to twice that; fresh payload poisoned; every
//! capacity change relocates; retired blocks are poisoned and quarantined (native mode) or
//! freed immediately (tool modes, so the tool sees the stale access).

use std::alloc::{GlobalAlloc, Layout, System};
use std::cell::RefCell;
use std::collections::{BTreeMap, VecDeque};

use crate::reg;

const GUARD_MIN: usize = 64;
const GUARD_BYTE: u8 = 0xFD;
const POISON_FRESH: u8 = 0xA5;
const POISON_RETIRED: u8 = 0xDD;

#[derive(Clone, Copy, Debug, PartialEq, Eq)]
pub enum Growth {
    /// Grows by precisely what was asked: the most hostile legal reading of "at least".
    Exact,
    Double,
    Slack3,
}


struct Retired {
    base: *mut u8,
    blk: Layout,
    payload_off: usize,
    payload_len: usize,
    serial: u64,
}

#[derive(Default)]
pub struct GmState {
    /// serial -> (base, block layout, payload offset, payload len)
    live: BTreeMap<u64, (usize, Layout, usize, usize)>,
    quarantine: VecDeque<Retired>,
    quarantine_bytes: usize,
    serial: u64,
    pub builds: u64,
    pub build_layouts: Vec<Layout>,
    pub relocations: u64,
    pub expands: u64,
    pub resizes: u64,
    pub drops: u64,
    pub scans: u64,
    pub growth: Option<Growth>,
    /// tool mode: no poison, no quarantine (retired blocks are freed at once)
    pub tool_mode: bool,
    pub log: Vec<String>,
    pub log_on: bool,
}

thread_local! {
    static GM: RefCell<GmState> = RefCell::new(GmState::default());
}
pub fn with<R>(f: impl FnOnce(&mut GmState) -> R) -> R {
    crate::monalloc::user_enter();
    let r = GM.with(|g| f(&mut g.borrow_mut()));
    crate::monalloc::user_exit();
    r
}
pub fn set_default_growth(g: Growth) {
    with(|s| s.growth = Some(g));
}
pub fn default_growth() -> Growth {
    with(|s| s.growth.unwrap_or(Growth::Exact))
}
pub fn set_tool_mode(on: bool) {
    with(|s| s.tool_mode = on);
}
pub fn live_blocks() -> usize {
    with(|s| s.live.len())
}
pub fn counters() -> (u64, u64, u64, u64, u64, u64) {
    with(|s| (s.builds, s.relocations, s.expands, s.resizes, s.drops, s.scans))
}
pub fn reset_counters() {
    with(|s| {
        s.builds = 0;
        s.relocations = 0;
        s.expands = 0;
        s.resizes = 0;
        s.drops = 0;
        s.scans = 0;
    });
}
pub fn take_build_layouts() -> Vec<Layout> {
    with(|s| std::mem::take(&mut s.build_layouts))
}

pub struct GuardBlock {
    base: *mut u8,
    blk: Layout,
    payload_off: usize,
    pub cap: usize,
    pub elem: Layout,
    serial: u64,
    pub growth: Growth,
}
// The monitor state is thread-local; a block moved to another thread simply reports there.
unsafe impl Send for GuardBlock {}
unsafe impl Sync for GuardBlock {}

fn geometry(elem: Layout, cap: usize) -> (Layout, usize, usize) {
    let a = elem.align();
    // payload offset: an odd multiple of `a` that is >= GUARD_MIN, in a block aligned to 2a
    let mut k = GUARD_MIN.div_ceil(a);
    if k % 2 == 0 {
        k += 1;
    }
    let off = k * a;
    let len = elem.size().checked_mul(cap).expect("GuardMem: capacity overflow");
    let tail = GUARD_MIN;
    let total = off.checked_add(len).and_then(|x| x.checked_add(tail)).expect("GuardMem: capacity overflow");
    let blk = Layout::from_size_align(total, (2 * a).max(16)).expect("GuardMem: capacity overflow");
    (blk, off, len)
}

impl GuardBlock {
    pub fn allocate(elem: Layout, cap: usize, growth: Growth) -> GuardBlock {
        let (blk, off, len) = geometry(elem, cap);
        let tool = with(|s| s.tool_mode);
        let base = unsafe { System.alloc(blk) };
        assert!(!base.is_null(), "GuardMem: out of memory");
        unsafe {
            std::ptr::write_bytes(base, GUARD_BYTE, off);
            if !tool {
                std::ptr::write_bytes(base.add(off), POISON_FRESH, len);
            }
            std::ptr::write_bytes(base.add(off + len), GUARD_BYTE, GUARD_MIN);
        }
        let serial = with(|s| {
            s.serial += 1;
            s.live.insert(s.serial, (base as usize, blk, off, len));
            s.serial
        });
        GuardBlock { base, blk, payload_off: off, cap, elem, serial, growth }
    }

    fn check_guards(base: *const u8, off: usize, len: usize) -> bool {
        unsafe {
            for i in 0..off {
                if *base.add(i) != GUARD_BYTE {
                    return false;
                }
            }
            for i in 0..GUARD_MIN {
                if *base.add(off + len + i) != GUARD_BYTE {
                    return false;
                }
            }
        }
        true
    }

    fn retire(&mut self) {
        let len = self.elem.size() * self.cap;
        if !Self::check_guards(self.base, self.payload_off, len) {
            reg::violation("guard", format!("GuardMem block #{} guard zone modified (seen at retire)", self.serial));
        }
        let tool = with(|s| {
            s.live.remove(&self.serial);
            s.tool_mode
        });
        if tool {
            unsafe { System.dealloc(self.base, self.blk) };
        } else {
            unsafe { std::ptr::write_bytes(self.base.add(self.payload_off), POISON_RETIRED, len) };
            let r = Retired { base: self.base, blk: self.blk, payload_off: self.payload_off, payload_len: len, serial: self.serial };
            with(|s| {
                s.quarantine_bytes += r.blk.size();
                s.quarantine.push_back(r);
                while s.quarantine.len() > 512 || s.quarantine_bytes > (32 << 20) {
                    let q = s.quarantine.pop_front().unwrap();
                    s.quarantine_bytes -= q.blk.size();
                    check_retired(&q);
                    unsafe { System.dealloc(q.base, q.blk) };
                }
            });
        }
        self.base = std::ptr::null_mut();
    }

    pub fn relocate(&mut self, new_cap: usize) {
        let mut nb = GuardBlock::allocate(self.elem, new_cap, self.growth);
        let n = self.cap.min(new_cap) * self.elem.size();
        unsafe {
            // untyped copy (may include never-written bytes)
            std::ptr::copy_nonoverlapping(
                self.base.add(self.payload_off) as *const std::mem::MaybeUninit<u8>,
                nb.base.add(nb.payload_off) as *mut std::mem::MaybeUninit<u8>,
                n,
            );
        }
        std::mem::swap(self, &mut nb);
        // nb is now the old block
        nb.retire();
        std::mem::forget(nb);
        with(|s| s.relocations += 1);
    }
}

fn check_retired(q: &Retired) {
    let ok_fill = unsafe {
        let p = q.base.add(q.payload_off);
        (0..q.payload_len).all(|i| *p.add(i) == POISON_RETIRED)
    };
    if !ok_fill {
        reg::violation("stale-write", format!("GuardMem retired block #{} was written after it was released", q.serial));
    }
    if !GuardBlock::check_guards(q.base, q.payload_off, q.payload_len) {
        reg::violation("guard", format!("GuardMem retired block #{} guard zone modified", q.serial));
    }
}

/// Scan guard zones of live blocks and fills of quarantined blocks.
pub fn scan() {
    with(|s| {
        s.scans += 1;
        for (serial, (base, _blk, off, len)) in s.live.iter() {
            if !GuardBlock::check_guards(*base as *const u8, *off, *len) {
                reg::violation("guard", format!("GuardMem block #{serial} guard zone modified"));
                unsafe {
                    std::ptr::write_bytes(*base as *mut u8, GUARD_BYTE, *off);
                    std::ptr::write_bytes((*base as *mut u8).add(off + len), GUARD_BYTE, GUARD_MIN);
                }
            }
        }
        for q in s.quarantine.iter() {
            let dirty = unsafe {
                let p = q.base.add(q.payload_off);
                !(0..q.payload_len).all(|i| *p.add(i) == POISON_RETIRED)
            };
            check_retired(q);
            if dirty {
                unsafe { std::ptr::write_bytes(q.base.add(q.payload_off), POISON_RETIRED, q.payload_len) };
            }
        }
    });
}

pub fn flush_quarantine() {
    with(|s| {
        while let Some(q) = s.quarantine.pop_front() {
            check_retired(&q);
            unsafe { System.dealloc(q.base, q.blk) };
        }
        s.quarantine_bytes = 0;
    });
}


impl GuardBlock {
    #[inline]
    pub fn payload(&self) -> *mut u8 {
        unsafe { self.base.add(self.payload_off) }
    }
    pub fn note_build(layout: Layout) {
        with(|s| {
            s.builds += 1;
            s.build_layouts.push(layout);
        });
    }
    pub fn expand(&mut self, additional: usize) {
        with(|s| s.expands += 1);
        let want = self.cap.checked_add(additional).expect("GuardMem: capacity overflow");
        let new_cap = match self.growth {
            Growth::Exact => want,
            Growth::Double => want.max(self.cap.saturating_mul(2)),
            Growth::Slack3 => want.saturating_add(3),
        };
        self.relocate(new_cap);
    }
    pub fn resize(&mut self, new_size: usize) {
        with(|s| s.resizes += 1);
        if new_size == self.cap {
            return;
        }
        self.relocate(new_size);
    }
}
impl Drop for GuardBlock {
    fn drop(&mut self) {
        if !self.base.is_null() {
            with(|s| s.drops += 1);
            self.retire();
        }
    }
}
