"""Helpers for the compile-probe based parts (C15, C16, C19): generated one-function programs are
built in batches against /repo with JSON diagnostics; errors are attributed to probes by span."""
import json
import os
import shutil
import subprocess

ROOT = os.path.dirname(os.path.dirname(os.path.abspath(__file__)))
PROBES = os.path.join(ROOT, "out", "probes")
TARGET = os.environ.get("VERIF_TARGET_DIR") or os.path.join(ROOT, "target")
if os.environ.get("VERIF_TARGET_DIR"):
    PROBES = os.path.join(os.environ["VERIF_TARGET_DIR"], "probes-src")


def env_base(extra=None):
    e = dict(os.environ)
    e["CARGO_NET_OFFLINE"] = "true"
    e.pop("RUSTFLAGS", None)
    e.pop("MIRIFLAGS", None)
    if extra:
        e.update(extra)
    return e


def write_crate(name, main_src, default_features=True, bin=True, extra_files=None):
    d = os.path.join(PROBES, name)
    os.makedirs(os.path.join(d, "src"), exist_ok=True)
    cargo = f"""[package]
name = "{name}"
version = "0.0.0"
edition = "2021"
publish = false

[workspace]

[dependencies]
any_vec = {{ path = "/repo"{'' if default_features else ', default-features = false'} }}

[profile.dev]
debug = false
incremental = false
"""
    _write_if_changed(os.path.join(d, "Cargo.toml"), cargo)
    _write_if_changed(os.path.join(d, "src", "main.rs" if bin else "lib.rs"), main_src)
    for rel, txt in (extra_files or {}).items():
        _write_if_changed(os.path.join(d, rel), txt)
    return d


def _write_if_changed(path, txt):
    try:
        if open(path).read() == txt:
            return
    except OSError:
        pass
    with open(path, "w") as f:
        f.write(txt)


def cargo_json(crate_dir, target_name, cmd=("check",), env=None, toolchain=None, timeout=1800):
    """Run cargo <cmd> --message-format=json; returns (returncode, diagnostics, raw_stderr)."""
    argv = ["cargo"] + ([f"+{toolchain}"] if toolchain else []) + list(cmd) + [
        "--offline", "--quiet", "--message-format=json", "--manifest-path", os.path.join(crate_dir, "Cargo.toml"),
        "--target-dir", os.path.join(TARGET, target_name)]
    p = subprocess.run(argv, env=env_base(env), stdout=subprocess.PIPE, stderr=subprocess.PIPE, text=True, timeout=timeout, cwd=crate_dir)
    diags = []
    for line in p.stdout.splitlines():
        if not line.startswith("{"):
            continue
        try:
            m = json.loads(line)
        except ValueError:
            continue
        if m.get("reason") != "compiler-message":
            continue
        msg = m["message"]
        if msg.get("level") not in ("error", "warning"):
            continue
        spans = [(s["file_name"], s["line_start"], s["line_end"]) for s in msg.get("spans", []) if s.get("is_primary")]
        if not spans:
            spans = [(s["file_name"], s["line_start"], s["line_end"]) for s in msg.get("spans", [])]
        diags.append(dict(level=msg["level"], code=(msg.get("code") or {}).get("code"), message=msg["message"], spans=spans,
                          target=m.get("target", {}).get("name")))
    return p.returncode, diags, p.stderr


class Batch:
    """A set of probe functions compiled as one crate; errors are mapped to probes by line range."""

    def __init__(self, name, prelude, default_features=True):
        self.name = name
        self.prelude = prelude
        self.default_features = default_features
        self.probes = []  # (id, body, expect_error, meta)

    def add(self, pid, body, expect_error, meta=None):
        self.probes.append((pid, body, expect_error, meta or {}))

    def build(self):
        lines = self.prelude.rstrip("\n").split("\n")
        ranges = {}
        for (pid, body, _exp, _meta) in self.probes:
            start = len(lines) + 1
            fn = "p_" + "".join(c if c.isalnum() else "_" for c in pid)
            lines.append(f"#[allow(unused, dead_code, unused_mut, unused_variables, unused_must_use)]")
            lines.append(f"pub fn {fn}() {{")
            lines.extend(body.rstrip("\n").split("\n"))
            lines.append("}")
            ranges[pid] = (start, len(lines))
        lines.append("fn main() {}")
        src = "\n".join(lines) + "\n"
        d = write_crate(self.name, src, default_features=self.default_features)
        rc, diags, err = cargo_json(d, "probes-" + self.name)
        per = {pid: [] for pid in ranges}
        unattributed = []
        for dg in diags:
            if dg["level"] != "error":
                continue
            hit = False
            for (f, a, b) in dg["spans"]:
                if not f.endswith("main.rs"):
                    continue
                for pid, (s, e) in ranges.items():
                    if s <= a <= e:
                        per[pid].append(dg)
                        hit = True
                        break
                if hit:
                    break
            if not hit and "aborting due to" not in dg["message"] and "could not compile" not in dg["message"]:
                unattributed.append(dg)
        return rc, per, unattributed, err
