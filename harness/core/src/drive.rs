//! Case execution: build a state, run operations on the real library and on the model,
//! compare after every step, consult every monitor. Written once against `dyn DynRig`.

use std::collections::{BTreeMap, HashMap, HashSet};

use crate::rigapi::MemKind;
use crate::rigapi::CfgEntry;
use crate::guard as guardmem;
use crate::model::{Expect, Model};
use crate::monalloc;
use crate::ops::*;
use crate::reg::{self, Id};
use crate::rigapi::{BoxRig, Snap};
use crate::util::{fnv, JObj, Rng};

#[derive(Clone, Debug)]
pub struct ViolRec {
    pub kind: String,
    pub sig: String,
    pub detail: String,
    pub desc: String,
    pub cfg: String,
    pub family: String,
    pub ordinal: u64,
}

#[derive(Default)]
pub struct Stats {
    pub evaluations: u64,
    pub steps: u64,
    pub distinct: HashSet<u64>,
    pub samples: Vec<String>,
    pub counters: BTreeMap<String, u64>,
    pub opsigs: HashSet<String>,
    pub states: HashSet<String>,
    pub cfgs: HashSet<String>,
    pub other_symptoms: Vec<String>,
    /// per-configuration digest of everything observed (order independent), for cross-build comparison
    pub digests: BTreeMap<String, u64>,
}
impl Stats {
    pub fn bump(&mut self, k: &str, n: u64) {
        *self.counters.entry(k.to_string()).or_insert(0) += n;
    }
}

pub struct Ctx {
    pub prop: String,
    pub tier: String,
    pub seed: u64,
    pub shard: usize,
    pub nshards: usize,
    pub tool_mode: bool,
    /// sub-selection of the workload (e.g. `light`: reduced configuration table)
    pub sub: String,
    pub verbose: bool,
    /// only run the case with this (family, cfg, ordinal)
    pub only: Option<(String, String, u64)>,
    pub cfg_filter: Option<String>,
    pub kinds: Vec<&'static str>,
    pub stats: Stats,
    pub viols: Vec<ViolRec>,
    pub rng: Rng,
    /// running ordinal inside the current (family, cfg)
    pub ordinal: u64,
    pub family: String,
    pub max_viols: usize,
    pub sample_every: u64,
    /// breadcrumb file: the case being executed, rewritten before every case
    pub crumb: Option<std::fs::File>,
    /// violations recorded per signature (at most a handful of each are kept)
    pub per_sig: HashMap<String, u64>,
    /// cases of the current family tolerate leaks (lying iterators under the sampled runner)
    pub leaks_ok_default: bool,
    /// accumulate per-configuration observation digests (C19)
    pub digest_on: bool,
    /// run a seeded stratified sample of the case space instead of enumerating it (slow tools)
    pub sampled: bool,
    /// interpreter mode (Miri): the tool is the monitor, harness-side byte scans and redundant views are skipped
    pub lean: bool,
    /// tool modes: stratified sampling, at most `quota` cases per (family, backend, operation signature)
    pub quota: u64,
    pub strata: std::collections::HashMap<String, u64>,
}

impl Ctx {
    pub fn relevant(&self, kind: &str) -> bool {
        self.kinds.iter().any(|k| *k == kind)
    }
    pub fn thorough(&self) -> bool {
        self.tier == "thorough"
    }

    pub fn begin_family(&mut self, family: &str) {
        self.family = family.to_string();
        self.ordinal = 0;
    }
    pub fn begin_cfg(&mut self, cfg: &CfgEntry) {
        self.ordinal = 0;
        self.stats.cfgs.insert(cfg.name.clone());
    }
    /// Decide whether this shard runs the next case; advances the ordinal.
    pub fn take(&mut self, cfg: &CfgEntry) -> bool {
        let o = self.ordinal;
        self.ordinal += 1;
        if let Some((f, c, n)) = &self.only {
            return *f == self.family && *c == cfg.name && *n == o;
        }
        if self.per_sig.len() >= self.max_viols {
            return false;
        }
        let mine = (o as usize) % self.nshards == self.shard;
        if mine {
            self.breadcrumb(&cfg.name, o);
        }
        mine
    }
    /// Like `take`, but in tool modes accepts only a stratified sample: every (family, backend,
    /// operation signature) stratum is owned by one shard and filled up to `quota` cases.
    pub fn take_sig(&mut self, cfg: &CfgEntry, sig: &str) -> bool {
        if !self.sampled || self.only.is_some() {
            return self.take(cfg);
        }
        let o = self.ordinal;
        self.ordinal += 1;
        if self.per_sig.len() >= self.max_viols {
            return false;
        }
        let key = format!("{}|{:?}|{}", self.family, cfg.mem, sig);
        let h = fnv(&key);
        if (h % self.nshards as u64) as usize != self.shard {
            return false;
        }
        // vary the chosen instance with the seed, rotate over configurations
        if crate::util::mix64(h ^ o ^ self.seed.wrapping_mul(0x9E37)) % 5 != 0 {
            return false;
        }
        let c = self.strata.entry(key).or_insert(0);
        if *c >= self.quota {
            return false;
        }
        *c += 1;
        self.breadcrumb(&cfg.name, o);
        true
    }
    pub fn breadcrumb(&mut self, cfg: &str, ordinal: u64) {
        if let Some(f) = &self.crumb {
            use std::os::unix::fs::FileExt;
            let mut line = format!("{}|{}|{}", self.family, cfg, ordinal);
            while line.len() < 119 {
                line.push(' ');
            }
            line.push('\n');
            let _ = f.write_at(line.as_bytes(), 0);
        }
    }
    pub fn wants_cfg(&self, cfg: &CfgEntry) -> bool {
        if let Some((_, c, _)) = &self.only {
            return *c == cfg.name;
        }
        match &self.cfg_filter {
            Some(f) => cfg.name.contains(f.as_str()),
            None => true,
        }
    }

    pub fn report(&mut self, cfg: &str, kind: &str, opsig: &str, detail: String, desc: &str) {
        if self.relevant(kind) {
            if self.verbose {
                eprintln!("VIOL {kind} {opsig}: {detail}\n  in {desc}");
            }
            let c = self.per_sig.entry(format!("{kind}:{opsig}")).or_insert(0);
            *c += 1;
            if *c > 6 {
                return;
            }
            self.viols.push(ViolRec {
                kind: kind.to_string(),
                sig: format!("{kind}:{opsig}"),
                detail,
                desc: desc.to_string(),
                cfg: cfg.to_string(),
                family: self.family.clone(),
                ordinal: self.ordinal.saturating_sub(1),
            });
        } else {
            self.stats.bump(&format!("other:{kind}"), 1);
            if self.stats.other_symptoms.len() < 8 {
                self.stats.other_symptoms.push(format!("{kind}:{opsig}: {detail} in {desc}"));
            }
        }
    }

    pub fn emit(&self) {
        // violations
        for v in &self.viols {
            println!(
                "{}",
                JObj::new()
                    .s("t", "viol")
                    .s("prop", &self.prop)
                    .s("kind", &v.kind)
                    .s("sig", &v.sig)
                    .s("detail", &v.detail)
                    .s("desc", &v.desc)
                    .s("cfg", &v.cfg)
                    .s("family", &v.family)
                    .n("ordinal", v.ordinal)
                    .n("seed", self.seed)
                    .render()
            );
        }
        let mut hashes: Vec<String> = Vec::new();
        // distinct hashes are merged by the driver across shards
        let mut hs: Vec<&u64> = self.stats.distinct.iter().collect();
        hs.sort();
        let mut buf = String::new();
        for (i, h) in hs.iter().enumerate() {
            if i > 0 {
                buf.push(',');
            }
            buf.push_str(&h.to_string());
            if buf.len() > 60000 {
                hashes.push(std::mem::take(&mut buf));
            }
        }
        hashes.push(buf);
        for h in hashes {
            println!("{{\"t\":\"distinct\",\"h\":[{}]}}", h.trim_start_matches(','));
        }
        let mut opsigs: Vec<String> = self.stats.opsigs.iter().cloned().collect();
        opsigs.sort();
        let mut states: Vec<String> = self.stats.states.iter().cloned().collect();
        states.sort();
        let mut cfgs: Vec<String> = self.stats.cfgs.iter().cloned().collect();
        cfgs.sort();
        println!(
            "{}",
            JObj::new()
                .s("t", "stat")
                .s("prop", &self.prop)
                .n("evaluations", self.stats.evaluations)
                .n("steps", self.stats.steps)
                .n("shard", self.shard as u64)
                .map("counters", &self.stats.counters)
                .strs("samples", &self.stats.samples)
                .strs("opsigs", &opsigs)
                .strs("states", &states)
                .strs("cfgs", &cfgs)
                .strs("other_symptoms", &self.stats.other_symptoms)
                .map("digests", &self.stats.digests)
                .render()
        );
    }
}

// ---------------------------------------------------------------------------------------------
// abstract states

#[derive(Clone, Copy, Debug, PartialEq, Eq)]
pub enum CapClass {
    /// capacity == len (resizable backends)
    Tight,
    Plus1,
    Plus3,
    /// whatever the growth policy produced while pushing
    Natural,
}

#[derive(Clone, Copy, Debug)]
pub struct VState {
    pub len: usize,
    pub cap: CapClass,
    /// spare capacity holds stale copies of former elements
    pub dirty: bool,
}
impl VState {
    pub fn label(&self) -> String {
        format!("len={},cap={:?}{}", self.len, self.cap, if self.dirty { ",dirty" } else { "" })
    }
}

/// Identity generator respecting the element's id width and avoiding poison patterns.
pub struct IdGen {
    next: Id,
    bits: u32,
}
impl IdGen {
    pub fn new(bits: u32) -> Self {
        IdGen { next: 0, bits }
    }
    pub fn fresh(&mut self, in_use: &dyn Fn(Id) -> bool) -> Id {
        if self.bits == 0 {
            return 0;
        }
        let modulus: u64 = if self.bits >= 63 { u64::MAX } else { 1u64 << self.bits };
        let limit = if self.bits == 8 { 160 } else { modulus - 1 };
        for _ in 0..=limit {
            self.next += 1;
            if self.next >= limit {
                self.next = 1;
            }
            let c = self.next;
            let lo = c & 0xff;
            if self.bits <= 16 && (lo == 0xA5 || lo == 0xDD || lo == 0xFD) {
                continue;
            }
            if !in_use(c) {
                return c;
            }
        }
        panic!("HARNESS: identity space exhausted");
    }
}

/// One live case: rig + model + bookkeeping.
pub struct Case<'a> {
    pub cfg: &'a CfgEntry,
    pub rig: BoxRig,
    pub model: Model,
    pub ids: IdGen,
    /// ids that may legitimately be alive but unreachable (forgotten / unspecified)
    pub allowed_leak: HashMap<Id, i64>,
    pub desc: String,
    pub failed: bool,
    /// leaks are tolerated for ids not in `allowed_leak` too (fault runs)
    pub leaks_ok: bool,
    pub check_clones: bool,
    pub base_before: Vec<(usize, usize)>,
    /// running hash of every operation, outcome and snapshot of this case
    pub trace: u64,
    /// a vector reports an absurd length: it is leaked instead of dropped (dropping would never finish)
    pub poisoned: bool,
}

pub const NVECS: usize = 3;

pub fn prepare_monitors(ctx: &Ctx) {
    reg::reset();
    reg::set_safe_payloads(!ctx.tool_mode);
    guardmem::set_tool_mode(ctx.tool_mode);
    if ctx.tool_mode {
        monalloc::set_mode(monalloc::MODE_LOG);
    } else {
        monalloc::set_mode(monalloc::MODE_GUARD);
    }
    let _ = monalloc::drain_events();
    let _ = guardmem::take_build_layouts();
    guardmem::reset_counters();
}

impl<'a> Case<'a> {
    pub fn new(ctx: &Ctx, cfg: &'a CfgEntry) -> Case<'a> {
        prepare_monitors(ctx);
        let rig = (cfg.make)(NVECS);
        Case {
            cfg,
            rig,
            model: {
                let mut m = Model::new(NVECS, cfg.fixed_cap);
                m.cloneable = cfg.cloneable;
                m
            },
            ids: IdGen::new(cfg.elem.id_bits),
            allowed_leak: HashMap::new(),
            desc: String::new(),
            failed: false,
            leaks_ok: false,
            check_clones: true,
            base_before: Vec::new(),
            trace: 0,
            poisoned: false,
        }
    }

    pub fn fresh_id(&mut self) -> Id {
        let model = &self.model;
        let allowed = &self.allowed_leak;
        self.ids.fresh(&|c| model.vecs.iter().any(|v| v.contains(&c)) || allowed.contains_key(&c))
    }

    /// Bring vector `v` into the abstract state `st` (elements get fresh ids).
    pub fn build_state(&mut self, ctx: &mut Ctx, v: usize, st: VState) {
        let resizable = self.cfg.resizable;
        let want_cap = match st.cap {
            CapClass::Tight => st.len,
            CapClass::Plus1 => st.len + 1,
            CapClass::Plus3 => st.len + 3,
            CapClass::Natural => 0,
        };
        if resizable && st.cap != CapClass::Natural {
            self.rig.reset_vec(v, want_cap);
        }
        let extra = if st.dirty {
            match self.cfg.fixed_cap {
                Some(c) => (c.saturating_sub(st.len)).min(3),
                None => {
                    if st.cap == CapClass::Natural {
                        2
                    } else {
                        want_cap - st.len
                    }
                }
            }
        } else {
            0
        };
        for _ in 0..st.len + extra {
            let id = self.fresh_id();
            self.step_quiet(ctx, &Op::TPush { v, id });
        }
        for _ in 0..extra {
            self.step_quiet(ctx, &Op::TPop { v });
        }
        if resizable && st.cap != CapClass::Natural {
            let s = self.rig.snap(v);
            if s.cap < want_cap {
                ctx.report(&self.cfg.name, "capacity", "with_capacity", format!("with_capacity({want_cap}) gave capacity {}", s.cap), &self.desc);
            }
        }
    }

    /// Execute without the full post-step comparison (state building); still mirrored on the model.
    pub fn step_quiet(&mut self, ctx: &mut Ctx, op: &Op) {
        let exp = self.model.apply(op);
        let out = self.rig.exec(op);
        let _ = reg::take_clone_log();
        if out.panicked != exp.out.panicked {
            self.failed = true;
            ctx.report(
                &self.cfg.name,
                "model",
                &opsig(op),
                format!("while building the state: panicked={} ({}) expected panicked={}", out.panicked, out.panic_msg, exp.out.panicked),
                &format!("{} | building: {op}", self.desc),
            );
        }
    }

    /// Execute one operation on the rig and the model and run every comparison and monitor.
    pub fn step(&mut self, ctx: &mut Ctx, op: &Op) -> (Outcome, Expect) {
        ctx.stats.steps += 1;
        let sig = opsig(op);
        let _ = reg::take_clone_log();
        let cap_op = matches!(op, Op::Reserve { .. } | Op::ShrinkToFit { .. } | Op::ShrinkTo { .. } | Op::RawRoundTrip { .. });
        let before: Vec<Snap> = if ctx.lean && !cap_op { Vec::new() } else { (0..NVECS).map(|v| self.rig.snap(v)).collect() };
        let exp = self.model.apply(op);
        let gm0 = guardmem::counters();
        let ma0 = monalloc::stats();
        let ta0 = monalloc::thread_allocs();
        let ev0 = reg::event_counts();
        let out = self.rig.exec(op);
        let ta1 = monalloc::thread_allocs();
        let gm1 = guardmem::counters();
        let ma1 = monalloc::stats();
        let ev1 = reg::event_counts();
        let desc = format!("{} | {op}", self.desc);
        let cfgname = self.cfg.name.clone();
        if out.unsupported {
            ctx.stats.bump("unsupported", 1);
            // the model must not have moved: rebuild it from the real vectors
            for v in 0..NVECS {
                self.resync(v);
            }
            return (out, exp);
        }
        if ctx.verbose {
            eprintln!("  step {op}\n    real: panicked={} ({}) vals={:?} lens={:?}", out.panicked, out.panic_msg, out.vals, out.lens);
            eprintln!("    model: panicked={} vals={:?} lens={:?}", exp.out.panicked, exp.out.vals, exp.out.lens);
        }
        if out.panicked != exp.out.panicked && exp.panic_optional && !out.panic_msg.contains("HARNESS") {
            // either ending is admitted; what matters is the state afterwards (post_check) and further use
            ctx.stats.bump("optional_panics", out.panicked as u64);
        } else if out.panicked != exp.out.panicked {
            self.failed = true;
            if out.panic_msg.contains("HARNESS") {
                ctx.report(&cfgname, "harness", &sig, out.panic_msg.clone(), &desc);
            } else if out.panicked {
                ctx.report(&cfgname, "model", &sig, format!("panicked (\"{}\") where Vec does not", out.panic_msg), &desc);
            } else {
                ctx.report(&cfgname, "model", &sig, "did not panic where Vec panics".to_string(), &desc);
            }
        } else if !out.panicked {
            if out.vals != exp.out.vals {
                self.failed = true;
                ctx.report(&cfgname, "model", &sig, format!("returned/yielded values {:?}, Vec gives {:?}", out.vals, exp.out.vals), &desc);
            }
            if out.lens != exp.out.lens {
                self.failed = true;
                ctx.report(&cfgname, "iter", &sig, format!("iterator len() reports {:?}, expected {:?}", out.lens, exp.out.lens), &desc);
            }
        }
        for n in &out.notes {
            self.failed = true;
            let kind = if n.contains("size_hint") { "iter" } else if n.contains("RawParts") { "rawparts" } else if n.contains("user code") { "lazy" } else { "handle" };
            ctx.report(&cfgname, kind, &sig, n.clone(), &desc);
        }
        for id in exp.leaked.iter().chain(exp.maybe_lost.iter()) {
            *self.allowed_leak.entry(*id).or_insert(0) += 1;
        }
        if out.panicked && exp.out.panicked {
            // rejected: nothing may have changed in the rejecting vector
            ctx.stats.bump("rejections", 1);
        }
        // clone accounting
        let clones = reg::take_clone_log();
        if self.check_clones && !exp.clones_lenient {
            let mut got: Vec<Id> = clones.iter().filter(|(t, _)| *t == self.cfg.elem.tag).map(|(_, i)| *i).collect();
            let mut want = exp.clones.clone();
            got.sort();
            want.sort();
            if got != want {
                self.failed = true;
                ctx.report(&cfgname, "clone-count", &sig, format!("Clone::clone ran for ids {:?}, expected exactly {:?}", got, want), &desc);
            }
        }
        ctx.stats.bump("clone_events", clones.len() as u64);
        ctx.stats.bump("drop_events", ev1.1 - ev0.1);
        // no operation on an inline (stack) backend may allocate
        if matches!(self.cfg.mem, MemKind::Stack | MemKind::StackN) && !matches!(op, Op::CloneEmptyIn { target: Target::Heap, .. }) {
            ctx.stats.bump("stack_ops_watched", 1);
            if ta1 != ta0 {
                self.failed = true;
                ctx.report(&cfgname, "stack-alloc", &sig, format!("{} heap allocation(s) during an operation on a stack-backed vector", ta1 - ta0), &desc);
            }
        }
        self.capacity_check(ctx, op, &sig, &desc, &before, &out, (gm0, gm1), (ma0, ma1), (ev0, ev1));
        // documented leak (forget): the prefix before the affected index is unchanged and whatever
        // follows it is made of elements that were there before
        for (v, n) in &exp.prefix_keep {
            let s = self.rig.snap(*v);
            let want: Vec<Val> = self.model.vecs[*v][..*n].iter().map(|i| Val::Id(*i)).collect();
            if s.vals.len() < *n || s.vals[..*n] != want[..] {
                self.failed = true;
                ctx.report(&cfgname, "forget-prefix", &sig, format!(
                    "after the leak v{v} is {:?}; the first {n} element(s) should still be {:?}", fmt_vals(&s.vals), &self.model.vecs[*v][..*n]), &desc);
            } else {
                for x in &s.vals[*n..] {
                    let ok = match x {
                        Val::Id(i) => exp.leaked.contains(i) || exp.maybe_lost.contains(i),
                        _ => false,
                    };
                    if !ok {
                        self.failed = true;
                        ctx.report(&cfgname, "forget-prefix", &sig, format!("after the leak v{v} shows {x:?}, which was not one of its elements at or after the affected index"), &desc);
                    }
                }
            }
        }
        self.post_check(ctx, &sig, &desc, &exp.resync, Some(&before));
        if ctx.digest_on && !matches!(op, Op::CloneEmptyIn { target: Target::Heap, .. }) {
            let mut t = format!("{op}|{:?}|{:?}|{}", out.vals, out.lens, out.panicked);
            for v in 0..NVECS {
                let s = self.rig.snap(v);
                t.push_str(&format!("|{:?},{}", s.vals, s.cap));
            }
            self.trace = crate::util::mix64(self.trace ^ fnv(&t));
        }
        (out, exp)
    }

    /// Postconditions of the capacity-management calls (C10).
    #[allow(clippy::too_many_arguments)]
    fn capacity_check(
        &mut self,
        ctx: &mut Ctx,
        op: &Op,
        sig: &str,
        desc: &str,
        before: &[Snap],
        out: &Outcome,
        gm: ((u64, u64, u64, u64, u64, u64), (u64, u64, u64, u64, u64, u64)),
        ma: (monalloc::Stats, monalloc::Stats),
        ev: ((u64, u64, u64), (u64, u64, u64)),
    ) {
        let cfgname = self.cfg.name.clone();
        if let Op::RawRoundTrip { v, .. } = op {
            if out.unsupported || out.panicked {
                return;
            }
            ctx.stats.bump("raw_round_trips_checked", 1);
            let b = &before[*v];
            let a = self.rig.snap(*v);
            if ev.0 != ev.1 {
                self.failed = true;
                ctx.report(&cfgname, "rawparts", sig, format!("into_raw_parts/from_raw_parts ran element code: (makes,drops,clones) {:?} -> {:?}", ev.0, ev.1), desc);
            }
            if ma.0.allocs != ma.1.allocs || ma.0.deallocs != ma.1.deallocs || ma.0.reallocs != ma.1.reallocs {
                self.failed = true;
                ctx.report(&cfgname, "rawparts", sig, format!(
                    "the round trip touched the allocator: allocs {}->{}, reallocs {}->{}, deallocs {}->{}",
                    ma.0.allocs, ma.1.allocs, ma.0.reallocs, ma.1.reallocs, ma.0.deallocs, ma.1.deallocs), desc);
            }
            if a.cap != b.cap || a.len != b.len || (a.base != b.base && self.cfg.elem.size > 0) {
                self.failed = true;
                ctx.report(&cfgname, "rawparts", sig, format!(
                    "rebuilt vector differs: len {}->{}, capacity {}->{}, storage {:#x}->{:#x}", b.len, a.len, b.cap, a.cap, b.base, a.base), desc);
            }
            return;
        }
        let (v, kind) = match op {
            Op::Reserve { v, .. } => (*v, 0),
            Op::ShrinkToFit { v, .. } => (*v, 1),
            Op::ShrinkTo { v, .. } => (*v, 2),
            _ => return,
        };
        if out.unsupported || out.panicked {
            return;
        }
        ctx.stats.bump("capacity_calls_checked", 1);
        let b = &before[v];
        let a = self.rig.snap(v);
        let heap = self.cfg.mem == MemKind::Heap;
        let backend_events = (gm.1 .1 - gm.0 .1) + (gm.1 .2 - gm.0 .2) + (gm.1 .3 - gm.0 .3);
        let alloc_events = (ma.1.allocs - ma.0.allocs) + (ma.1.reallocs - ma.0.reallocs) + (ma.1.deallocs - ma.0.deallocs);
        if ev.0 != ev.1 {
            self.failed = true;
            ctx.report(&cfgname, "capacity", sig, "a capacity call ran element Drop/Clone code".to_string(), desc);
        }
        match (kind, op) {
            (0, Op::Reserve { n, .. }) => {
                let need = b.len.saturating_add(*n);
                if a.cap < need {
                    self.failed = true;
                    ctx.report(&cfgname, "capacity", sig, format!("reserve({n}) with len {} returned with capacity {} < len + n", b.len, a.cap), desc);
                }
                if b.cap >= need {
                    ctx.stats.bump("reserve_noop_checked", 1);
                    if a.cap != b.cap || a.base != b.base || backend_events != 0 || alloc_events != 0 {
                        self.failed = true;
                        ctx.report(&cfgname, "capacity", sig, format!(
                            "reserve({n}) with sufficient capacity {} (len {}) changed capacity to {} / moved storage ({} backend, {} allocator events)",
                            b.cap, b.len, a.cap, backend_events, alloc_events), desc);
                    }
                }
            }
            (1, _) | (2, _) => {
                let bound = match op {
                    Op::ShrinkTo { n, .. } => b.len.max(*n),
                    _ => b.len,
                };
                if a.cap > b.cap {
                    self.failed = true;
                    ctx.report(&cfgname, "capacity", sig, format!("capacity grew from {} to {} (len {}, bound {})", b.cap, a.cap, b.len, bound), desc);
                }
                if a.cap < bound.min(b.cap) {
                    self.failed = true;
                    ctx.report(&cfgname, "capacity", sig, format!("capacity {} fell below max(len, bound) = {} (was {})", a.cap, bound.min(b.cap), b.cap), desc);
                }
                if heap && a.cap != b.cap.min(bound) {
                    self.failed = true;
                    ctx.report(&cfgname, "capacity", sig, format!("heap backend ended at capacity {} instead of min(old {}, bound {})", a.cap, b.cap, bound), desc);
                }
            }
            _ => {}
        }
    }

    pub fn resync(&mut self, v: usize) {
        let s = self.rig.snap(v);
        self.model.vecs[v] = s.vals.iter().filter_map(|x| if let Val::Id(i) = x { Some(*i) } else { None }).collect();
    }

    /// Snapshots vs model, registry balance, guard scans, allocator events.
    pub fn post_check(&mut self, ctx: &mut Ctx, sig: &str, desc: &str, resync: &[usize], before: Option<&[Snap]>) {
        let cfgname = self.cfg.name.clone();
        let mut visible: HashMap<Id, i64> = HashMap::new();
        let snaps: Vec<Snap> = (0..NVECS).map(|v| self.rig.snap(v)).collect();
        for v in 0..NVECS {
            let s = snaps[v].clone();
            if !s.typeid_ok || !s.layout_ok {
                self.failed = true;
                ctx.report(&cfgname, "meta", sig, format!("v{v}: element_typeid/element_layout do not describe the element type"), desc);
                continue;
            }
            if s.len > s.cap {
                self.failed = true;
                self.poisoned = true;
                ctx.report(&cfgname, "len>cap", sig, format!("v{v}: len {} > capacity {}", s.len, s.cap), desc);
                continue;
            }
            if s.len > (1 << 26) {
                self.poisoned = true;
            }
            if s.is_empty != (s.len == 0) {
                self.failed = true;
                ctx.report(&cfgname, "model", sig, format!("v{v}: is_empty()={} with len {}", s.is_empty, s.len), desc);
            }
            // the typed view's getters agree with the vector's
            if let Some((tl, tc, te, tp)) = s.typed_getters {
                if tl != s.len || tc != s.cap || te != (s.len == 0) || (tp != s.base && self.cfg.elem.size != 0) {
                    self.failed = true;
                    ctx.report(
                        &cfgname,
                        "model",
                        sig,
                        format!("v{v}: typed view reports len {tl} capacity {tc} is_empty {te} as_ptr {tp:#x}; the vector has len {} capacity {} storage {:#x}", s.len, s.cap, s.base),
                        desc,
                    );
                }
            }
            if let Some(c) = self.cfg.fixed_cap {
                if s.cap != c {
                    self.failed = true;
                    ctx.report(&cfgname, "capacity", sig, format!("v{v}: fixed backend reports capacity {} (expected {c})", s.cap), desc);
                }
            }
            if s.bytes_len != s.len * self.cfg.elem.size || s.bytes_base != s.base || !s.bytes_eq {
                self.failed = true;
                ctx.report(&cfgname, "view", sig, format!(
                    "v{v}: as_bytes() is [{:#x}; {}], the elements are [{:#x}; {} x {}]{}", s.bytes_base, s.bytes_len, s.base, s.len, self.cfg.elem.size,
                    if s.bytes_eq { "" } else { " and the bytes differ" }), desc);
            }
            if s.misalign != 0 {
                self.failed = true;
                ctx.report(&cfgname, "align", sig, format!("v{v}: storage pointer {:#x} is not aligned to {}", s.base, self.cfg.elem.align), desc);
            }
            let garbage = s.vals.iter().any(|x| !matches!(x, Val::Id(_)));
            if garbage {
                self.failed = true;
                ctx.report(&cfgname, "garbage", sig, format!("v{v}: as_slice() exposes bytes that are not an element: {:?}", s.vals), desc);
            }
            if resync.contains(&v) {
                // unspecified-but-valid: validity is judged by the registry below
                if let Some(b) = before {
                    let _ = b;
                }
                self.resync(v);
            } else {
                let want: Vec<Val> = self.model.vecs[v].iter().map(|i| Val::Id(*i)).collect();
                if s.vals != want {
                    self.failed = true;
                    if !garbage {
                        ctx.report(&cfgname, "model", sig, format!("v{v} is {:?}, Vec gives {:?}", fmt_vals(&s.vals), self.model.vecs[v]), desc);
                    }
                    self.resync(v);
                }
            }
            // erased views agree with the typed snapshot
            if !garbage && !ctx.lean {
                let (gets, its) = self.rig.erased_views(v);
                let mut want_gets = s.vals.clone();
                want_gets.push(Val::None);
                want_gets.push(Val::None);
                if gets != want_gets {
                    self.failed = true;
                    ctx.report(&cfgname, "model", sig, format!("v{v}: get(0..len+2) gives {:?}, contents are {:?}", fmt_vals(&gets), fmt_vals(&s.vals)), desc);
                }
                if its != s.vals {
                    self.failed = true;
                    ctx.report(&cfgname, "model", sig, format!("v{v}: iter() yields {:?}, contents are {:?}", fmt_vals(&its), fmt_vals(&s.vals)), desc);
                }
            }
            for x in &s.vals {
                if let Val::Id(i) = x {
                    *visible.entry(*i).or_insert(0) += 1;
                }
            }
        }
        // separately owned storage
        for i in 0..NVECS {
            for j in i + 1..NVECS {
                if snaps[i].cap > 0 && snaps[j].cap > 0 && self.cfg.elem.size > 0 && snaps[i].base == snaps[j].base {
                    self.failed = true;
                    ctx.report(&cfgname, "shared-storage", sig, format!("v{i} and v{j} use the same storage at {:#x}", snaps[i].base), desc);
                }
            }
        }
        // heap shape: at most one block per vector, none while capacity x size == 0, large and aligned enough
        if self.cfg.mem == MemKind::Heap {
            let st = monalloc::stats();
            let owning = snaps.iter().filter(|s| s.cap > 0 && self.cfg.elem.size > 0).count() as u64;
            ctx.stats.bump("heap_shape_checks", 1);
            if st.live != owning {
                self.failed = true;
                ctx.report(&cfgname, "alloc-shape", sig, format!(
                    "{} live heap block(s) attributed to the library, but {} vector(s) have capacity x size > 0 (capacities {:?})",
                    st.live, owning, snaps.iter().map(|s| s.cap).collect::<Vec<_>>()), desc);
            }
            for (i, sn) in snaps.iter().enumerate() {
                if sn.cap > 0 && self.cfg.elem.size > 0 && sn.cap <= (1 << 40) {
                    let bytes = sn.cap * self.cfg.elem.size;
                    if monalloc::covers(sn.base, bytes, self.cfg.elem.align).is_none() {
                        self.failed = true;
                        ctx.report(&cfgname, "alloc-shape", sig, format!(
                            "v{i}: storage {:#x} (+{} bytes, align {}) is not inside one live, suitably aligned heap block", sn.base, bytes, self.cfg.elem.align), desc);
                    }
                }
            }
        }
        // by-value accounting for element types without drop glue
        if !self.cfg.elem.tracked && resync.is_empty() {
            let mut want: Vec<Id> = self.model.vecs.iter().flatten().copied().collect();
            let mut got: Vec<Id> = visible.iter().flat_map(|(i, n)| std::iter::repeat(*i).take(*n as usize)).collect();
            want.sort();
            got.sort();
            if want != got {
                self.failed = true;
                ctx.report(&cfgname, "value-accounting", sig, format!("values held by the vectors {:?} differ from the values placed in them {:?}", got, want), desc);
            }
        }
        // registry balance
        if self.cfg.elem.tracked {
            let live = reg::live_snapshot(self.cfg.elem.tag);
            for (id, n) in &visible {
                let l = live.get(id).copied().unwrap_or(0);
                if *n > l {
                    self.failed = true;
                    let kind = if l == 0 { "dead-visible" } else { "dup" };
                    ctx.report(&cfgname, kind, sig, format!("element id {id} is visible {n} time(s) but only {l} live instance(s) exist"), desc);
                }
            }
            for (id, l) in &live {
                let n = visible.get(id).copied().unwrap_or(0);
                if *l > n {
                    let slack = self.allowed_leak.get(id).copied().unwrap_or(0);
                    if l - n > slack && !self.leaks_ok {
                        self.failed = true;
                        ctx.report(&cfgname, "leak", sig, format!("element id {id}: {l} live instance(s) but only {n} reachable through a vector"), desc);
                        // report once
                        *self.allowed_leak.entry(*id).or_insert(0) += l - n - slack;
                    }
                }
            }
        }
        self.drain_monitors(ctx, sig, desc);
    }

    pub fn drain_monitors(&mut self, ctx: &mut Ctx, sig: &str, desc: &str) {
        let cfgname = self.cfg.name.clone();
        if self.cfg.mem == MemKind::Guard && !ctx.lean {
            guardmem::scan();
        }
        if self.cfg.mem == MemKind::Heap && !ctx.tool_mode {
            monalloc::scan();
        }
        let (evs, lost) = monalloc::drain_events();
        if lost > 0 {
            ctx.stats.bump("alloc_events_lost", lost);
        }
        for e in evs {
            match e.kind {
                b'a' => ctx.stats.bump("alloc", 1),
                b'r' => ctx.stats.bump("realloc(moved)", 1),
                b'd' => ctx.stats.bump("dealloc", 1),
                b'I' => {
                    self.failed = true;
                    ctx.report(&cfgname, "alloc-invalid", sig, format!("invalid layout reached the allocator: size={:#x} align={}", e.size, e.align), desc)
                }
                b'M' => {
                    self.failed = true;
                    ctx.report(&cfgname, "alloc-layout", sig, format!("realloc/dealloc presented layout (size={}, align={}) for a block allocated with (size={}, align={})", e.size, e.align, e.aux, e.aux2), desc)
                }
                b'G' => {
                    self.failed = true;
                    ctx.report(&cfgname, "guard", sig, format!("heap block #{} ({} bytes): guard zone modified", e.aux, e.size), desc)
                }
                b'Q' => {
                    self.failed = true;
                    ctx.report(&cfgname, "stale-write", sig, format!("heap block #{} was written after it was released", e.aux), desc)
                }
                b'F' => {
                    self.failed = true;
                    ctx.report(&cfgname, "alloc-layout", sig, format!("heap block #{} released twice", e.aux), desc)
                }
                _ => {}
            }
        }
        for v in reg::take_violations() {
            self.failed = true;
            ctx.report(&cfgname, v.kind, sig, v.detail, desc);
        }
    }

    /// Drop everything and check that nothing is left alive.
    pub fn finish(mut self, ctx: &mut Ctx) -> bool {
        if ctx.digest_on && self.trace != 0 {
            let e = ctx.stats.digests.entry(self.cfg.name.clone()).or_insert(0);
            *e = e.wrapping_add(self.trace) & 0x000f_ffff_ffff_ffff;
        }
        let desc = format!("{} | teardown", self.desc);
        let cfgname = self.cfg.name.clone();
        if self.poisoned {
            // the vector's bookkeeping is corrupt (already reported): dropping it could run forever or crash
            self.leaks_ok = true;
            let rig = std::mem::replace(&mut self.rig, Box::new(crate::rigapi::NullRig));
            std::mem::forget(rig);
            for v in reg::take_violations() {
                ctx.report(&cfgname, v.kind, "drop", v.detail, &desc);
            }
            guardmem::flush_quarantine();
            monalloc::flush_quarantine();
            let _ = monalloc::drain_events();
            return false;
        }
        if let Some(msg) = self.rig.teardown() {
            self.failed = true;
            ctx.report(&cfgname, "model", "drop", format!("dropping the vectors panicked: {msg}"), &desc);
        }
        self.drain_monitors(ctx, "drop", &desc);
        if self.cfg.elem.tracked && !self.leaks_ok {
            let live = reg::live_snapshot(self.cfg.elem.tag);
            for (id, l) in &live {
                let slack = self.allowed_leak.get(id).copied().unwrap_or(0);
                if *l > slack {
                    self.failed = true;
                    ctx.report(&cfgname, "leak", "drop", format!("element id {id}: {l} instance(s) still alive after every vector was dropped"), &desc);
                }
            }
        }
        if self.cfg.mem == MemKind::Guard {
            let lb = guardmem::live_blocks();
            if lb != 0 {
                self.failed = true;
                ctx.report(&cfgname, "lifecycle", "drop", format!("{lb} storage block(s) of the user-defined backend never released"), &desc);
            }
            let layouts = guardmem::take_build_layouts();
            let want = std::alloc::Layout::from_size_align(self.cfg.elem.size, self.cfg.elem.align).unwrap();
            for l in layouts {
                if l != want {
                    self.failed = true;
                    ctx.report(&cfgname, "lifecycle", "build", format!("backend asked to build storage for layout {l:?}, element layout is {want:?}"), &desc);
                }
            }
            let (b, r, e, z, d, s) = guardmem::counters();
            ctx.stats.bump("backend_builds", b);
            ctx.stats.bump("backend_relocations", r);
            ctx.stats.bump("backend_expand_calls", e);
            ctx.stats.bump("backend_resize_calls", z);
            ctx.stats.bump("backend_drops", d);
            ctx.stats.bump("backend_guard_scans", s);
            guardmem::reset_counters();
        }
        guardmem::flush_quarantine();
        monalloc::flush_quarantine();
        self.drain_monitors(ctx, "drop", &desc);
        for v in reg::take_violations() {
            self.failed = true;
            ctx.report(&cfgname, v.kind, "drop", v.detail, &desc);
        }
        if self.cfg.mem == MemKind::Heap {
            let st = monalloc::stats();
            if st.live != 0 {
                self.failed = true;
                ctx.report(&cfgname, "alloc-leak", "drop", format!("{} heap block(s) ({} bytes) attributed to the library still allocated after every vector was dropped: {:?}", st.live, st.live_bytes, monalloc::live_list()), &desc);
            }
        }
        !self.failed
    }
}

pub fn fmt_vals(v: &[Val]) -> Vec<String> {
    v.iter()
        .map(|x| match x {
            Val::Id(i) => i.to_string(),
            Val::Garbage(r) => format!("garbage({r:#x})"),
            Val::None => "None".to_string(),
        })
        .collect()
}

/// Operation signature (coarse): operation x path x value-source / sink kind.
pub fn opsig(op: &Op) -> String {
    fn src(s: &Src) -> String {
        match s {
            Src::Wrapper(_) => "Wrapper".into(),
            Src::Raw(_) => "Raw".into(),
            Src::TypelessRaw(_) => "TypelessRaw".into(),
            Src::SizelessRaw(_) => "SizelessRaw".into(),
            Src::Pop(_) => "PopHandle".into(),
            Src::HandleUnchecked(_) => "PopHandle(unchecked)".into(),
            Src::UserTyped(_) => "UserTyped".into(),
            Src::UserLazy(_) => "Lazy(UserTyped)".into(),
            Src::Remove(..) => "RemoveHandle".into(),
            Src::SwapRemove(..) => "SwapRemoveHandle".into(),
            Src::Drained(..) => "DrainedElement".into(),
            Src::Lazy(k, _, _, d) => format!("Lazy{d}({k:?})"),
        }
    }
    fn sink(s: &Sink) -> String {
        let p = match s.pre {
            Pre::None => "",
            Pre::Mutate(_) => "mutate>",
            Pre::SwapWrapper(_) => "swapW>",
            Pre::SwapRaw(_) => "swapR>",
            Pre::Inspect => "inspect>",
        };
        let f = match s.fin {
            Fin::Drop => "drop",
            Fin::Downcast => "downcast",
            Fin::Ref => "ref",
            Fin::Push(_) => "push",
            Fin::Insert(..) => "insert",
            Fin::Forget => "forget",
        };
        format!("{p}{f}")
    }
    match op {
        Op::LazyMulti(m) => format!("lazy{}({:?})x{}", m.depth, m.kind, m.uses.len()),
        Op::IterScript { how, clone_at, end, .. } => format!("{how:?}.script{}{}", if clone_at.is_some() { "+clone" } else { "" }, end.suffix()),
        Op::CloneEmptyIn { target, .. } => format!("clone_empty_in({target:?})"),
        Op::ViewWrite { via, .. } => format!("write({via:?})"),
        Op::Push { src: s, .. } => format!("push({})", src(s)),
        Op::Insert { src: s, .. } => format!("insert({})", src(s)),
        Op::Pop { sink: s, .. } => format!("pop->{}", sink(s)),
        Op::Remove { sink: s, .. } => format!("remove->{}", sink(s)),
        Op::SwapRemove { sink: s, .. } => format!("swap_remove->{}", sink(s)),
        Op::Clear { .. } => "clear".into(),
        Op::TPush { .. } => "typed.push".into(),
        Op::TInsert { .. } => "typed.insert".into(),
        Op::TPop { .. } => "typed.pop".into(),
        Op::TRemove { .. } => "typed.remove".into(),
        Op::TSwapRemove { .. } => "typed.swap_remove".into(),
        Op::TClear { .. } => "typed.clear".into(),
        Op::Get { how, .. } => format!("{how:?}"),
        Op::Iter { how, rev, .. } => format!("{how:?}{}", if *rev { ".rev" } else { "" }),
        Op::Drain { typed, end, .. } => format!("{}drain{}", if *typed { "typed." } else { "" }, end.suffix()),
        Op::Splice { typed, repl, end, .. } => {
            let r = match repl {
                Repl::Wrappers(_) => "Wrapper",
                Repl::Raws(_) => "Raw",
                Repl::DrainOf(..) => "Drain",
                Repl::Growing(..) => "Growing",
                Repl::LazyRefs(..) => "Lazy",
                Repl::Lying(..) => "Lying",
                Repl::Mismatch(..) => "Mismatch",
                Repl::MismatchRaw(..) => "MismatchRaw",
            };
            format!("{}splice({r}){}", if *typed { "typed." } else { "" }, end.suffix())
        }
        Op::CloneVec { .. } => "clone".into(),
        Op::CloneEmpty { .. } => "clone_empty".into(),
        Op::Reserve { exact, typed, .. } => format!("{}reserve{}", if *typed { "typed." } else { "" }, if *exact { "_exact" } else { "" }),
        Op::ShrinkToFit { typed, .. } => format!("{}shrink_to_fit", if *typed { "typed." } else { "" }),
        Op::ShrinkTo { typed, .. } => format!("{}shrink_to", if *typed { "typed." } else { "" }),
        Op::RawRoundTrip { .. } => "raw_round_trip".into(),
    }
}

/// Record a finished case in the statistics.
pub fn record(ctx: &mut Ctx, cfg: &CfgEntry, state: &str, ops: &[Op], nontrivial: bool, desc: &str) {
    ctx.stats.evaluations += 1;
    if nontrivial {
        ctx.stats.distinct.insert(fnv(desc));
    }
    for op in ops {
        ctx.stats.opsigs.insert(opsig(op));
    }
    ctx.stats.states.insert(format!("{}|{}|{}", cfg.elem.name, cfg.mem as u8, state));
    let n = ctx.stats.evaluations;
    if ctx.stats.samples.len() < 6 || (n % ctx.sample_every == 0 && ctx.stats.samples.len() < 24) {
        ctx.stats.samples.push(desc.to_string());
    }
}
