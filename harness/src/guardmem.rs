//! `GuardMem`: the instrumented, user-defined, relocating storage backend, written against the
//! public `MemBuilder` / `Mem` / `MemResizable` / `MemBuilderSizeable` contract only.
//! (Block management and monitoring live in `hvcore::guard`.)

use any_vec::mem::{Mem, MemBuilder, MemBuilderSizeable, MemResizable};
use hvcore::guard::{default_growth, Growth, GuardBlock};
use std::alloc::Layout;

#[derive(Clone, Copy)]
pub struct GuardMem {
    pub growth: Growth,
}
impl Default for GuardMem {
    fn default() -> Self {
        GuardMem { growth: default_growth() }
    }
}

pub struct GuardStore(GuardBlock);

impl MemBuilder for GuardMem {
    type Mem = GuardStore;
    fn build(&mut self, element_layout: Layout) -> GuardStore {
        GuardBlock::note_build(element_layout);
        GuardStore(GuardBlock::allocate(element_layout, 0, self.growth))
    }
}
impl MemBuilderSizeable for GuardMem {
    fn build_with_size(&mut self, element_layout: Layout, capacity: usize) -> GuardStore {
        GuardBlock::note_build(element_layout);
        GuardStore(GuardBlock::allocate(element_layout, capacity, self.growth))
    }
}
impl Mem for GuardStore {
    #[inline]
    fn as_ptr(&self) -> *const u8 {
        self.0.payload()
    }
    #[inline]
    fn as_mut_ptr(&mut self) -> *mut u8 {
        self.0.payload()
    }
    #[inline]
    fn element_layout(&self) -> Layout {
        self.0.elem
    }
    #[inline]
    fn size(&self) -> usize {
        self.0.cap
    }
    fn expand(&mut self, additional: usize) {
        self.0.expand(additional)
    }
}
impl MemResizable for GuardStore {
    fn resize(&mut self, new_size: usize) {
        self.0.resize(new_size)
    }
}

/// The same instrumented backend, but every fresh storage already has room for two elements (a "small buffer" style
/// growable backend): `build()` returns a non-empty `Mem`.
#[derive(Clone, Copy, Default)]
pub struct GuardPre2(pub GuardMem);
pub const PRE: usize = 2;
impl MemBuilder for GuardPre2 {
    type Mem = GuardStore;
    fn build(&mut self, element_layout: Layout) -> GuardStore {
        GuardBlock::note_build(element_layout);
        GuardStore(GuardBlock::allocate(element_layout, PRE, self.0.growth))
    }
}
impl MemBuilderSizeable for GuardPre2 {
    fn build_with_size(&mut self, element_layout: Layout, capacity: usize) -> GuardStore {
        GuardBlock::note_build(element_layout);
        GuardStore(GuardBlock::allocate(element_layout, capacity.max(PRE), self.0.growth))
    }
}
