//! Per-property workloads: which families run and which symptom kinds decide the property.

use crate::configs;
use hvcore::drive::Ctx;
use hvcore::fam::{self, HistParams};

pub fn kinds_for(prop: &str) -> Vec<&'static str> {
    match prop {
        "C01" => vec!["model", "garbage", "harness"],
        _ => vec!["harness"],
    }
}

pub fn run(ctx: &mut Ctx) {
    let mut cfgs = configs::all();
    if ctx.sub == "light" || ctx.tool_mode {
        cfgs.retain(|c| c.core);
    }
    let thorough = ctx.thorough();
    match ctx.prop.as_str() {
        "C01" => {
            let l = if thorough { 7 } else { 4 };
            fam::exhaustive(ctx, "elem", &cfgs, l, true, &fam::elem_ops);
            let p = HistParams {
                histories: if thorough { 400 } else { 12 },
                ops: if thorough { 2000 } else { 300 },
                max_len: if thorough { 5000 } else { 200 },
                ranges: false,
                elems: true,
                capacity: true,
                clones: false,
                invalid_pct: 6,
            };
            fam::histories(ctx, "elem-hist", &cfgs, &p);
        }
        other => {
            eprintln!("unknown property {other}");
            std::process::exit(2);
        }
    }
}
