"""C16: uses of a vector that conflict with a live handle are rejected at compile time.

Systematically generated one-function programs: every handle-producing method (erased and typed) x every conflicting-action
class of the property, each paired with its conflict-free control. A conflict program that builds is the refuting event; every
control must build and run clean (natively with the identity-free String elements, and under Miri).
The accept/reject observation is rustc's borrow checker (trusted base, see MANIFEST level_note)."""
import os
import subprocess
import time

from . import common

PRELUDE = r'''
#![allow(dead_code, unused_imports, unused_mut, unused_variables, unused_must_use, unused_assignments)]
use any_vec::any_value::*;
use any_vec::any_value::AnyValueWrapper as W;
use any_vec::element::*;
use any_vec::traits::*;
use any_vec::AnyVec;
type V = AnyVec<dyn Cloneable>;
fn mk() -> V {
    let mut v: V = AnyVec::new::<String>();
    for s in ["a", "b", "c"] { v.push(W::new(String::from(s))); }
    v
}
fn sink<T>(_t: T) {}
'''

# name -> (create statements producing `h` from `v`, use statement, exclusive?, owned value handle?, typed-view-derived?)
PRODUCERS = {
    "at": ("let h = v.at(0);", "sink(h.size());", False, False, False),
    "get": ("let h = v.get(0).unwrap();", "sink(h.size());", False, False, False),
    "at_mut": ("let mut h = v.at_mut(0);", "h.downcast_mut::<String>().unwrap().push('x');", True, False, False),
    "get_mut": ("let mut h = v.get_mut(0).unwrap();", "h.downcast_mut::<String>().unwrap().push('x');", True, False, False),
    "iter": ("let mut h = v.iter();", "sink(h.next().map(|e| e.size()));", False, False, False),
    "into_iter_ref": ("let mut h = (&v).into_iter();", "sink(h.next().map(|e| e.size()));", False, False, False),
    "iter_mut": ("let mut h = v.iter_mut();", "sink(h.next().map(|e| e.size()));", True, False, False),
    "pop": ("let h = v.pop().unwrap();", "sink(h.size());", True, True, False),
    "remove": ("let h = v.remove(0);", "sink(h.size());", True, True, False),
    "swap_remove": ("let h = v.swap_remove(0);", "sink(h.size());", True, True, False),
    "drain": ("let mut h = v.drain(..);", "sink(h.next().map(|e| e.size()));", True, False, False),
    "splice": ("let mut h = v.splice(0..1, [W::new(String::from(\"n\"))]);", "sink(h.next().map(|e| e.size()));", True, False, False),
    "drained_element": ("let mut d = v.drain(..); let h = d.next().unwrap();", "sink(h.size());", True, True, False),
    "downcast_ref": ("let h = v.downcast_ref::<String>().unwrap();", "sink(h.len());", False, False, False),
    "downcast_mut": ("let mut h = v.downcast_mut::<String>().unwrap();", "h.push(String::from(\"t\"));", True, False, False),
    "as_bytes": ("let h = v.as_bytes();", "sink(h.len());", False, False, False),
    "as_bytes_mut": ("let h = v.as_bytes_mut();", "sink(h.len());", True, False, False),
    "spare_bytes_mut": ("let h = v.spare_bytes_mut();", "sink(h.len());", True, False, False),
    "lazy_clone(ElementRef)": ("let e = v.at(0); let h = e.lazy_clone();", "sink(h.size());", False, False, False),
    "lazy_clone(pop)": ("let p = v.pop().unwrap(); let h = p.lazy_clone();", "sink(h.size());", True, False, False),
    "ElementRef.downcast_ref": ("let e = v.at(0); let h: &String = e.downcast_ref::<String>().unwrap();", "sink(h.len());", False, False, False),
    "ElementMut.downcast_mut": ("let mut e = v.at_mut(0); let h: &mut String = e.downcast_mut::<String>().unwrap();", "h.push('x');", True, False, False),
    "AnyValue::downcast_ref(pop)": ("let p = v.pop().unwrap(); let h: &String = p.downcast_ref::<String>().unwrap();", "sink(h.len());", True, False, False),
    # borrowed out of a typed view
    "typed.at": ("let t = v.downcast_ref::<String>().unwrap(); let h: &String = t.at(0);", "sink(h.len());", False, False, True),
    "typed.get": ("let t = v.downcast_ref::<String>().unwrap(); let h: &String = t.get(0).unwrap();", "sink(h.len());", False, False, True),
    "typed.as_slice": ("let t = v.downcast_ref::<String>().unwrap(); let h: &[String] = t.as_slice();", "sink(h.len());", False, False, True),
    "typed.iter": ("let t = v.downcast_ref::<String>().unwrap(); let mut h = t.iter();", "sink(h.next().map(|s| s.len()));", False, False, True),
    "typed.at_mut": ("let mut t = v.downcast_mut::<String>().unwrap(); let h: &mut String = t.at_mut(0);", "h.push('x');", True, False, True),
    "typed.get_mut": ("let mut t = v.downcast_mut::<String>().unwrap(); let h: &mut String = t.get_mut(0).unwrap();", "h.push('x');", True, False, True),
    "typed.as_mut_slice": ("let mut t = v.downcast_mut::<String>().unwrap(); let h: &mut [String] = t.as_mut_slice();", "h[0].push('x');", True, False, True),
    "typed.iter_mut": ("let mut t = v.downcast_mut::<String>().unwrap(); let mut h = t.iter_mut();", "sink(h.next().map(|s| s.len()));", True, False, True),
    "typed.drain": ("let mut t = v.downcast_mut::<String>().unwrap(); let mut h = t.drain(..);", "sink(h.next().map(|s| s.len()));", True, False, True),
    "typed.splice": ("let mut t = v.downcast_mut::<String>().unwrap(); let mut h = t.splice(0..1, [String::from(\"n\")]);", "sink(h.next().map(|s| s.len()));", True, False, True),
    "typed.spare_capacity_mut": ("let mut t = v.downcast_mut::<String>().unwrap(); let h = t.spare_capacity_mut();", "sink(h.len());", True, False, True),
}

# conflict class -> (line inserted between creation and use, applies to shared handles too?)
BETWEEN = {
    "mutate-source": ("v.push(W::new(String::from(\"z\")));", True),
    "clear-source": ("v.clear();", True),
    "read-source": ("sink(v.len());", False),
    "second-exclusive": ("let mut h2 = v.at_mut(0); h2.downcast_mut::<String>().unwrap().push('y');", False),
    "second-exclusive-typed": ("let mut h2 = v.downcast_mut::<String>().unwrap(); h2.push(String::from(\"y\"));", True),
    "move-source": ("let v2 = v; sink(v2.len());", True),
    "drop-source": ("drop(v);", True),
}


def gen():
    """Returns (conflicts, controls): lists of (id, body)."""
    conflicts, controls = [], []
    for pn, (create, use, excl, owned, typed) in PRODUCERS.items():
        controls.append((f"{pn}|control", f"    let mut v = mk();\n    {create}\n    {use}"))
        for cn, (line, shared_too) in BETWEEN.items():
            if not excl and not shared_too:
                continue
            conflicts.append((f"{pn}|{cn}", f"    let mut v = mk();\n    {create}\n    {line}\n    {use}"))
        # escape the source's scope
        decl = "let mut h;" if create.strip().startswith("let mut h") or "let mut h" in create else "let h;"
        esc_create = create.replace("let mut h =", "h =").replace("let h =", "h =").replace("let h: &String =", "h =").replace("let h: &mut String =", "h =") \
            .replace("let h: &[String] =", "h =").replace("let h: &mut [String] =", "h =")
        conflicts.append((f"{pn}|escape-scope", f"    {decl}\n    {{\n        let mut v = mk();\n        {esc_create}\n    }}\n    {use}"))
        if owned:
            conflicts.append((f"{pn}|consume-twice", f"    let mut v = mk();\n    {create}\n    let a = h.downcast::<String>();\n    let b = h.downcast::<String>();\n    sink((a, b));"))
            controls.append((f"{pn}|consume-once", f"    let mut v = mk();\n    {create}\n    let a = h.downcast::<String>();\n    sink(a);"))
            conflicts.append((f"{pn}|push-twice", f"    let mut v = mk();\n    let mut w = mk();\n    {create}\n    w.push(h);\n    w.push(h);"))
        if typed:
            # mutate through the typed view, then reuse an earlier borrow from it
            view_mut = "t.push(String::from(\"grow\"));" if "downcast_mut" in create else None
            if view_mut:
                conflicts.append((f"{pn}|mutate-view-then-reuse", f"    let mut v = mk();\n    {create}\n    {view_mut}\n    {use}"))
                conflicts.append((f"{pn}|clear-view-then-reuse", f"    let mut v = mk();\n    {create}\n    t.clear();\n    {use}"))
            # the borrow must not outlive the view's own borrow of the vector
            conflicts.append((f"{pn}|drop-view-mutate-source", f"    let mut v = mk();\n    {create}\n    drop(t);\n    v.push(W::new(String::from(\"z\")));\n    {use}"))
    # every mutating method needs an exclusive path to the vector: through a shared reference, or through the shared typed view,
    # it must not be callable while another shared handle is alive (or at all)
    erased_mut = {
        "reserve": "r.reserve(1);", "reserve_exact": "r.reserve_exact(1);", "shrink_to_fit": "r.shrink_to_fit();", "shrink_to": "r.shrink_to(0);",
        "set_len": "unsafe { r.set_len(0); }", "downcast_mut": "r.downcast_mut::<String>().unwrap().clear();", "as_bytes_mut": "sink(r.as_bytes_mut().len());",
        "spare_bytes_mut": "sink(r.spare_bytes_mut().len());", "iter_mut": "sink(r.iter_mut().len());", "at_mut": "sink(r.at_mut(0).size());",
        "get_mut": "sink(r.get_mut(0).map(|e| e.size()));", "get_unchecked_mut": "sink(unsafe { r.get_unchecked_mut(0) }.size());",
        "insert": "r.insert(0, W::new(String::new()));", "push": "r.push(W::new(String::new()));", "pop": "sink(r.pop().map(|e| e.size()));",
        "remove": "sink(r.remove(0).size());", "swap_remove": "sink(r.swap_remove(0).size());", "drain": "sink(r.drain(..).len());",
        "splice": "sink(r.splice(0..1, [W::new(String::new())]).len());", "clear": "r.clear();",
    }
    for m, call in erased_mut.items():
        conflicts.append((f"shared-path|&AnyVec.{m}", f"    let mut v = mk();\n    let h = v.at(0);\n    let r = &v;\n    {call}\n    sink(h.size());"))
    typed_mut = {
        "reserve": "t.reserve(1);", "reserve_exact": "t.reserve_exact(1);", "shrink_to_fit": "t.shrink_to_fit();", "shrink_to": "t.shrink_to(0);",
        "set_len": "unsafe { t.set_len(0); }", "insert": "t.insert(0, String::new());", "push": "t.push(String::new());", "pop": "sink(t.pop());",
        "remove": "sink(t.remove(0));", "swap_remove": "sink(t.swap_remove(0));", "drain": "sink(t.drain(..).count());",
        "splice": "sink(t.splice(0..1, [String::new()]).count());", "clear": "t.clear();", "iter_mut": "sink(t.iter_mut().len());",
        "at_mut": "t.at_mut(0).push('x');", "get_mut": "t.get_mut(0).unwrap().push('x');", "get_unchecked_mut": "unsafe { t.get_unchecked_mut(0) }.push('x');",
        "as_mut_ptr": "sink(t.as_mut_ptr());", "as_mut_slice": "t.as_mut_slice()[0].push('x');", "spare_capacity_mut": "sink(t.spare_capacity_mut().len());",
    }
    for m, call in typed_mut.items():
        conflicts.append((f"shared-path|AnyVecRef.{m}", f"    let mut v = mk();\n    let h = v.at(0);\n    let mut t = v.downcast_ref::<String>().unwrap();\n    {call}\n    sink(h.size());"))
    controls.append(("shared-path|readers", "    let mut v = mk();\n    let h = v.at(0);\n    let r = &v;\n    let mut t = v.downcast_ref::<String>().unwrap();\n"
                     "    sink((r.len(), r.capacity(), t.len(), t.at(0).len(), t.as_slice().len(), t.iter().count(), t.as_ptr(), r.as_bytes().len()));\n    sink(h.size());"))
    # what is borrowed from an OWNING handle (removal handle, lazy clone of it) must not survive the handle's drop or consumption
    owners = {"pop": "v.pop().unwrap()", "remove": "v.remove(0)", "swap_remove": "v.swap_remove(0)"}
    for on, mkh in owners.items():
        derived = {
            "downcast_ref": ("let h: &String = p.downcast_ref::<String>().unwrap();", "sink(h.len());"),
            "AnyValue::downcast_ref": ("let h: &String = AnyValue::downcast_ref::<String>(&p).unwrap();", "sink(h.len());"),
            "downcast_mut": ("let h: &mut String = p.downcast_mut::<String>().unwrap();", "h.push('x');"),
            "as_bytes": ("let h = p.as_bytes();", "sink(h.len());"),
            "as_bytes_mut": ("let h = p.as_bytes_mut();", "sink(h.len());"),
            "lazy_clone": ("let h = p.lazy_clone();", "sink(h.size());"),
            "LazyClone::new": ("let h = LazyClone::new(&p);", "sink(h.size());"),
            "lazy_clone.lazy_clone": ("let l = p.lazy_clone(); let h = LazyClone::new(&l).clone();", "sink(h.size());"),
        }
        for dn, (take, use) in derived.items():
            base = f"    let mut v = mk();\n    let mut p = {mkh};\n    {take}\n"
            controls.append((f"owner|{on}.{dn}|control", base + f"    {use}"))
            conflicts.append((f"owner|{on}.{dn}|drop-handle", base + f"    drop(p);\n    {use}"))
            conflicts.append((f"owner|{on}.{dn}|consume-handle", base + f"    let s = p.downcast::<String>();\n    {use}\n    sink(s);"))
            conflicts.append((f"owner|{on}.{dn}|move-handle-into-vector", base + f"    let mut w = mk();\n    w.push(p);\n    {use}"))
            esc_take = take.replace("let h: &String =", "h =").replace("let h: &mut String =", "h =").replace("let h =", "h =")
            if dn != "lazy_clone.lazy_clone":
                conflicts.append((f"owner|{on}.{dn}|escape-handle-scope", f"    let mut v = mk();\n    let h;\n    {{\n        let mut p = {mkh};\n        {esc_take}\n    }}\n    {use}"))
    # the same for an element yielded by a drain while the drain is alive
    base = "    let mut v = mk();\n    let mut d = v.drain(..);\n    let mut p = d.next().unwrap();\n"
    for dn, (take, use) in {"downcast_ref": ("let h: &String = AnyValue::downcast_ref::<String>(&p).unwrap();", "sink(h.len());"), "LazyClone::new": ("let h = LazyClone::new(&p);", "sink(h.size());"), "as_bytes": ("let h = p.as_bytes();", "sink(h.len());")}.items():
        controls.append((f"owner|drained.{dn}|control", base + f"    {take}\n    {use}"))
        conflicts.append((f"owner|drained.{dn}|drop-handle", base + f"    {take}\n    drop(p);\n    {use}"))
    # an exclusive handle must not be duplicable
    for pn in ("at_mut", "get_mut", "iter_mut", "pop", "remove", "swap_remove", "drain", "splice", "drained_element", "downcast_mut"):
        create, use, _e, _o, _t = PRODUCERS[pn]
        conflicts.append((f"{pn}|clone-handle", f"    let mut v = mk();\n    {create}\n    let mut h2 = h.clone();\n    {use}\n    {use.replace('h.', 'h2.')}"))
    # two simultaneous mutable paths to one element
    two = {
        "typed.at_mut x2": "let mut t = v.downcast_mut::<String>().unwrap();\n    let a = t.at_mut(0);\n    let b = t.at_mut(0);\n    a.push('1');\n    b.push('2');",
        "typed.get_mut+as_mut_slice": "let mut t = v.downcast_mut::<String>().unwrap();\n    let a = t.get_mut(0).unwrap();\n    let b = t.as_mut_slice();\n    a.push('1');\n    b[0].push('2');",
        "typed.iter_mut x2": "let mut t = v.downcast_mut::<String>().unwrap();\n    let mut a = t.iter_mut();\n    let mut b = t.iter_mut();\n    a.next().unwrap().push('1');\n    b.next().unwrap().push('2');",
        "typed.at_mut+at": "let mut t = v.downcast_mut::<String>().unwrap();\n    let a = t.at_mut(0);\n    let b = t.at(0);\n    a.push('1');\n    sink(b.len());",
        "ElementMut.downcast_mut x2": "let mut e = v.at_mut(0);\n    let a = e.downcast_mut::<String>().unwrap();\n    let b = e.downcast_mut::<String>().unwrap();\n    a.push('1');\n    b.push('2');",
        "ElementMut.downcast_mut+as_bytes_mut": "let mut e = v.at_mut(0);\n    let a = e.downcast_mut::<String>().unwrap();\n    let b = e.as_bytes_mut();\n    a.push('1');\n    sink(b.len());",
        "AnyValueMut::downcast_mut x2": "let mut e = v.at_mut(0);\n    let a = AnyValueMut::downcast_mut::<String>(&mut *e).unwrap();\n    let b = AnyValueMut::downcast_mut::<String>(&mut *e).unwrap();\n    a.push('1');\n    b.push('2');",
        "at_mut x2": "let mut a = v.at_mut(0);\n    let mut b = v.at_mut(0);\n    a.downcast_mut::<String>().unwrap().push('1');\n    b.downcast_mut::<String>().unwrap().push('2');",
        "iter_mut x2": "let mut a = v.iter_mut();\n    let mut b = v.iter_mut();\n    sink(a.next().map(|e| e.size()));\n    sink(b.next().map(|e| e.size()));",
        "iter_mut.clone": "let mut a = v.iter_mut();\n    let mut b = a.clone();\n    let mut x = a.next().unwrap();\n    let mut y = b.next().unwrap();\n    x.downcast_mut::<String>().unwrap().push('1');\n    y.downcast_mut::<String>().unwrap().push('2');",
        "pop x2": "let a = v.pop().unwrap();\n    let b = v.pop().unwrap();\n    sink((a.size(), b.size()));",
        "remove x2": "let a = v.remove(0);\n    let b = v.remove(0);\n    sink((a.size(), b.size()));",
        "swap_remove+drain": "let a = v.swap_remove(0);\n    let mut b = v.drain(..);\n    sink((a.size(), b.len()));",
        "drain x2": "let mut a = v.drain(..);\n    let mut b = v.drain(..);\n    sink((a.len(), b.len()));",
        "splice+at": "let mut a = v.splice(0..1, [W::new(String::new())]);\n    let b = v.at(0);\n    sink((a.len(), b.size()));",
        "downcast_mut x2": "let mut a = v.downcast_mut::<String>().unwrap();\n    let mut b = v.downcast_mut::<String>().unwrap();\n    a.push(String::new());\n    b.push(String::new());",
        "downcast_mut+downcast_ref": "let mut a = v.downcast_mut::<String>().unwrap();\n    let b = v.downcast_ref::<String>().unwrap();\n    a.push(String::new());\n    sink(b.len());",
        "as_bytes_mut+at": "let a = v.as_bytes_mut();\n    let b = v.at(0);\n    sink((a.len(), b.size()));",
        "ElementMut copied": "let mut a = v.at_mut(0);\n    let mut b = a;\n    sink(a.size());\n    sink(b.size());",
    }
    for k, body in two.items():
        conflicts.append((f"two-paths|{k}", f"    let mut v = mk();\n    {body}"))
    # items yielded by a range iterator must not outlive it (its drop moves the tail over their slots)
    outlive = {
        "drain.item-outlives-iterator": "let e = v.drain(0..1).next().unwrap();\n    sink(e.size());",
        "drain.item-outlives-iterator(block)": "let e = { let mut d = v.drain(..); d.next().unwrap() };\n    sink(e.size());",
        "drain.item-then-use-source": "let mut d = v.drain(0..1);\n    let e = d.next().unwrap();\n    drop(d);\n    v.push(W::new(String::from(\"z\")));\n    sink(e.size());",
        "splice.item-outlives-iterator": "let e = v.splice(0..1, [W::new(String::new())]).next().unwrap();\n    sink(e.size());",
        "drain.last-outlives-iterator": "let e = v.drain(0..1).last().unwrap();\n    sink(e.size());",
        "drain.max_by_key-outlives-iterator": "let e = v.drain(0..2).max_by_key(|e| e.size()).unwrap();\n    sink(e.size());",
        "iter_mut.item-then-mutate-source": "let mut e = v.iter_mut().next().unwrap();\n    v.clear();\n    sink(e.size());",
        "iter.item-then-mutate-source": "let e = v.iter().next().unwrap();\n    v.clear();\n    sink(e.size());",
    }
    for k, body in outlive.items():
        conflicts.append((f"yielded-item|{k}", f"    let mut v = mk();\n    {body}"))
    controls.append(("yielded-item|inside-iterator", "    let mut v = mk();\n    { let mut d = v.drain(0..2); let e = d.next().unwrap(); sink(e.size()); drop(e); }\n    sink(v.len());"))
    controls.append(("two-paths|sequential", "    let mut v = mk();\n    { let mut a = v.at_mut(0); a.downcast_mut::<String>().unwrap().push('1'); }\n    { let mut b = v.at_mut(0); b.downcast_mut::<String>().unwrap().push('2'); }\n"
                     "    { let mut t = v.downcast_mut::<String>().unwrap(); t.at_mut(0).push('3'); t.at_mut(0).push('4'); t.push(String::new()); }\n    sink(v.len());"))
    controls.append(("shared|two-readers", "    let v = mk();\n    let a = v.at(0);\n    let b = v.at(0);\n    let c = a.clone();\n    let mut i = v.iter();\n    let j = i.clone();\n    sink((a.size(), b.size(), c.size(), i.len(), j.len()));"))
    return conflicts, controls


def fn_name(pid):
    return "p_" + "".join(c if c.isalnum() else "_" for c in pid)


def run(prop, tier, seed, root):
    t0 = time.time()
    out = dict(evaluations=0, distinct_nontrivial=0, samples=[], counters={}, violations=[], inconclusive=None)
    viols = out["violations"]
    conflicts, controls = gen()
    # --- controls: one crate that must build entirely; its main calls every control
    lines = [PRELUDE]
    for pid, body in controls:
        lines.append(f"pub fn {fn_name(pid)}() {{\n{body}\n}}")
    lines.append("fn main() {")
    for pid, _ in controls:
        lines.append(f"    {fn_name(pid)}();")
    lines.append(f"    println!(\"CONTROLS {len(controls)}\");\n}}")
    cdir = common.write_crate("c16_controls", "\n".join(lines) + "\n")
    rc, diags, err = common.cargo_json(cdir, "probes-c16", cmd=("build",))
    errs = [d for d in diags if d["level"] == "error"]
    out["counters"]["controls"] = len(controls)
    if errs:
        # attribute by line
        src = open(os.path.join(cdir, "src", "main.rs")).read().split("\n")
        for d in errs[:20]:
            line = d["spans"][0][1] if d["spans"] else 0
            # find enclosing fn
            who = "?"
            for i in range(min(line, len(src)) - 1, -1, -1):
                if src[i].startswith("pub fn p_"):
                    who = src[i][7:].split("(")[0]
                    break
            viols.append(dict(kind="rejected-control", sig=f"rejected-control:{who}", detail=f"a conflict-free control program does not build: [{d['code']}] {d['message'][:200]}",
                              desc=who, cfg="", family="controls", ordinal=0, seed=seed))
    else:
        # run natively
        p = subprocess.run([os.path.join(common.TARGET, "probes-c16", "debug", "c16_controls")], stdout=subprocess.PIPE, stderr=subprocess.PIPE, text=True)
        if p.returncode != 0 or "CONTROLS" not in p.stdout:
            viols.append(dict(kind="control-run", sig="control-run:native", detail="the control programs failed when executed: " + p.stderr[-600:], desc="c16_controls", cfg="", family="controls", ordinal=0, seed=seed))
        out["counters"]["controls_executed_native"] = len(controls)
        # and under Miri (Stacked Borrows on: all controls use the Heap backend)
        env = common.env_base({"RUSTFLAGS": "--cfg any_vec_verif", "MIRIFLAGS": "-Zmiri-disable-isolation"})
        p = subprocess.run(["cargo", "+nightly", "miri", "run", "--quiet", "--manifest-path", os.path.join(cdir, "Cargo.toml"), "--target-dir", os.path.join(common.TARGET, "probes-c16-miri")],
                           env=env, stdout=subprocess.PIPE, stderr=subprocess.PIPE, text=True, cwd=cdir, timeout=1800)
        if "Undefined Behavior" in p.stderr:
            i = p.stderr.find("error: Undefined Behavior")
            viols.append(dict(kind="control-run", sig="control-run:miri", detail="a control program is flagged when executed under Miri: " + p.stderr[i:i + 1200], desc="c16_controls", cfg="", family="controls", ordinal=0, seed=seed))
        elif "CONTROLS" in p.stdout:
            out["counters"]["controls_executed_miri"] = len(controls)
        else:
            out["inconclusive"] = "Miri run of the controls failed: " + p.stderr[-600:]
    # --- conflicts: batches; anything without an error is re-built alone to confirm that it really builds
    remaining = list(conflicts)
    rejected = {}
    admitted = []
    for rnd in range(4):
        if not remaining:
            break
        b = common.Batch(f"c16_conflicts_{rnd}", PRELUDE)
        for pid, body in remaining:
            b.add(pid, body, True)
        rc, per, unattributed, err = b.build()
        nxt = []
        for pid, body in remaining:
            if per[pid]:
                rejected[pid] = sorted({d["code"] or "?" for d in per[pid]})
            else:
                nxt.append((pid, body))
        if rc == 0:
            admitted = nxt
            remaining = []
            break
        if len(nxt) == len(remaining):
            # no progress: errors could not be attributed
            out["inconclusive"] = "conflict batch fails without attributable errors: " + "; ".join(d["message"] for d in unattributed[:3])
            break
        remaining = nxt
    else:
        admitted = remaining
    if remaining and not out["inconclusive"]:
        admitted = remaining
    codes = {}
    for pid, cs in rejected.items():
        for c in cs:
            codes[c] = codes.get(c, 0) + 1
    for pid, body in admitted:
        producer, conflict = pid.split("|", 1)
        viols.append(dict(kind="admitted", sig=f"admitted:{producer}:{conflict}".replace(" ", "_"), detail="a conflicting program builds: " + " ".join(body.split()),
                          desc=pid, cfg="", family="conflicts", ordinal=0, seed=seed))
    # --- witnesses: every admitted conflict program is executed under Miri and the report attached
    witnesses = {}
    if admitted:
        lines = [PRELUDE]
        for pid, body in admitted:
            lines.append(f"pub fn {fn_name(pid)}() {{\n{body}\n}}")
        lines.append("fn main() {\n    let which = std::env::args().nth(1).unwrap_or_default();")
        for pid, _ in admitted:
            lines.append(f"    if which == \"{fn_name(pid)}\" {{ {fn_name(pid)}(); }}")
        lines.append("    println!(\"RAN {which}\");\n}")
        wdir = common.write_crate("c16_witness", "\n".join(lines) + "\n")
        env = common.env_base({"RUSTFLAGS": "--cfg any_vec_verif", "MIRIFLAGS": "-Zmiri-disable-isolation"})
        tdir = os.path.join(common.TARGET, "probes-c16-miri")
        # build once
        subprocess.run(["cargo", "+nightly", "miri", "run", "--quiet", "--manifest-path", os.path.join(wdir, "Cargo.toml"), "--target-dir", tdir, "--", "none"],
                       env=env, stdout=subprocess.PIPE, stderr=subprocess.PIPE, text=True, cwd=wdir, timeout=1800)

        def witness(pid):
            p = subprocess.run(["cargo", "+nightly", "miri", "run", "--quiet", "--manifest-path", os.path.join(wdir, "Cargo.toml"), "--target-dir", tdir, "--", fn_name(pid)],
                               env=env, stdout=subprocess.PIPE, stderr=subprocess.PIPE, text=True, cwd=wdir, timeout=600)
            if "Undefined Behavior" in p.stderr:
                i = p.stderr.find("error: Undefined Behavior")
                return pid, p.stderr[i:i + 200].split("\n")[0]
            return pid, "executed without a Miri report" if "RAN" in p.stdout else "did not run: " + p.stderr[-200:]

        from concurrent.futures import ThreadPoolExecutor
        with ThreadPoolExecutor(max_workers=os.cpu_count() or 4) as ex:
            for pid, w in ex.map(witness, [pid for pid, _ in admitted]):
                witnesses[pid] = w
        out["counters"]["admitted_programs_executed_under_miri"] = len(witnesses)
        out["counters"]["admitted_programs_flagged_by_miri"] = sum(1 for w in witnesses.values() if "Undefined Behavior" in w)
        for v in viols:
            if v["kind"] == "admitted" and v["desc"] in witnesses:
                v["detail"] += " || executed under Miri: " + witnesses[v["desc"]]
    out["witnesses"] = witnesses
    out["counters"]["conflict_programs"] = len(conflicts)
    out["counters"]["conflicts_rejected"] = len(rejected)
    out["counters"]["conflicts_admitted"] = len(admitted)
    for c, n in sorted(codes.items()):
        out["counters"][f"rejected_with_{c}"] = n
    out["evaluations"] = len(conflicts) + len(controls)
    out["distinct_nontrivial"] = len(conflicts) + len(controls)
    out["samples"] = [f"{pid}: {' '.join(body.split())}" for pid, body in conflicts[:3]] + [f"{pid}: {' '.join(body.split())}" for pid, body in controls[:2]]
    out["cfgs"] = sorted(PRODUCERS)
    out["opsigs"] = sorted({pid.split("|", 1)[1] for pid, _ in conflicts})
    out["wall_s"] = time.time() - t0
    return out
