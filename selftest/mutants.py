#!/usr/bin/env python3
"""Self-test: a catalogue of small realistic mutants (DESIGN.md 1.10), each applied to /repo's working tree,
confirmed to compile and to pass the repository's own tests, run through the quick check of the property it
breaks, and reverted.  Results -> selftest/RESULTS.md.

  selftest/mutants.py [id ...]        (default: all)
"""
import json
import os
import subprocess
import sys
import time

ROOT = os.path.dirname(os.path.dirname(os.path.abspath(__file__)))

# (id, property, file, old, new, note)
M = [
    ("index_check_le", "C01", "src/any_vec_raw.rs", 'assert!(index < self.len, "Index out of range!");', 'assert!(index <= self.len, "Index out of range!");', "remove/swap_remove accept index == len"),
    ("get_le", "C13", "src/any_vec.rs", "    pub fn get(&self, index: usize) -> Option<ElementRef<Traits, M>>{\n        if index < self.len(){", "    pub fn get(&self, index: usize) -> Option<ElementRef<Traits, M>>{\n        if index <= self.len(){", "get(len) answers Some"),
    ("get_mut_le", "C13", "src/any_vec.rs", "    pub fn get_mut(&mut self, index: usize) -> Option<ElementMut<Traits, M>>{\n        if index < self.len(){", "    pub fn get_mut(&mut self, index: usize) -> Option<ElementMut<Traits, M>>{\n        if index <= self.len(){", "get_mut(len) answers Some"),
    ("remove_shift_short", "C01", "src/ops/remove.rs", "crate::copy_bytes(src, dst, size * (self.last_index - self.index));", "crate::copy_bytes(src, dst, size * (self.last_index - self.index).saturating_sub(1));", "erased remove shifts one element too few"),
    ("dropfn_stride", "C03", "src/any_vec_raw.rs", "ptr = ptr.add(mem::size_of::<T>());", "ptr = ptr.add(mem::size_of::<T>().max(8));", "erased drop function strides at least 8 bytes"),
    ("drain_no_drop_rest", "C03", "src/ops/drain.rs", "            drop_elements_range(\n                self.iter.any_vec_ptr,\n                self.iter.index,\n                self.iter.end\n            );", "            drop_elements_range(\n                self.iter.any_vec_ptr,\n                self.iter.index,\n                self.iter.index\n            );", "Drain::drop does not destroy unyielded items"),
    ("temp_consume_before_drop", "C06", "src/ops/temp.rs", "        unsafe{\n            let drop_fn = self.any_vec_raw().drop_fn;\n            let element = self.op.bytes() as *mut u8;", "        unsafe{\n            let drop_fn = self.any_vec_raw().drop_fn;\n            let element = self.op.bytes() as *mut u8;\n            if false { self.op.consume(); }", None),
    ("clear_len_after", "C06", "src/any_vec_raw.rs", "        self.len = 0;\n\n        if let Some(drop_fn) = self.drop_fn{\n            unsafe{\n                (drop_fn)(self.mem.as_mut_ptr(), len);\n            }\n        }", "        if let Some(drop_fn) = self.drop_fn{\n            unsafe{\n                (drop_fn)(self.mem.as_mut_ptr(), len);\n            }\n        }\n        self.len = 0;", "clear zeroes len after the destructors ran"),
    ("pop_no_len_lower", "C07", "src/ops/pop.rs", "        any_vec_raw.len -= 1;\n\n        Self{", "        Self{", None),
    ("remove_len_late", "C06", "src/ops/remove.rs", "        any_vec_raw.len = index;\n\n        Self{any_vec_ptr, index, last_index, phantom: PhantomData}", "        any_vec_raw.len = last_index;\n\n        Self{any_vec_ptr, index, last_index, phantom: PhantomData}", "Remove::new lowers len only by one: a destructor panicking inside the handle's drop leaves the destroyed element visible (not a C07 violation: an immediately forgotten handle has moved nothing out)"),
    ("push_no_typecheck", "C04", "src/any_vec.rs", "    pub fn push<V: AnyValue>(&mut self, value: V) {\n        self.raw.type_check(&value);", "    pub fn push<V: AnyValue>(&mut self, value: V) {", "push does not check the type"),
    ("splice_no_item_check", "C04", "src/ops/splice.rs", "                assert_types_equal(type_id, replace_element.value_typeid());\n", "", "splice does not check item types"),
    ("elem_downcast_ref_nocheck", "C04", "src/element.rs", "    pub fn downcast_ref<T: 'static>(&self) -> Option<&'a T>{\n        if self.value_typeid() != TypeId::of::<T>(){", "    pub fn downcast_ref<T: 'static>(&self) -> Option<&'a T>{\n        if false && self.value_typeid() != TypeId::of::<T>(){", "ElementPointer::downcast_ref accepts any type"),
    ("lazy_move_into_memcpy", "C09", "src/any_value/lazy_clone.rs", "    unsafe fn move_into<KnownType:'static /*= Unknown*/>(self, out: *mut u8, _bytes_size: usize) {\n        self.value.clone_into(out);\n    }", "    unsafe fn move_into<KnownType:'static /*= Unknown*/>(self, out: *mut u8, _bytes_size: usize) {\n        core::ptr::copy_nonoverlapping(self.value.as_bytes_ptr(), out, _bytes_size);\n    }", "LazyClone::move_into copies bytes"),
    ("clone_len_before", "C06", "src/any_vec_raw.rs", "        // 3. copy/clone\n        {", "        cloned.len = self.len;\n        // 3. copy/clone\n        {", "clone sets len before cloning (a panicking Clone exposes uninitialised elements)"),
    ("reserve_ignores_len", "C10", "src/any_vec_raw.rs", "        let new_len = self.len.checked_add(additional).expect(\"capacity overflow\");\n        if self.capacity() < new_len{\n            self.mem.expand(new_len - self.capacity());", "        let new_len = self.len.checked_add(additional).expect(\"capacity overflow\");\n        if self.capacity() < additional{\n            self.mem.expand(new_len - self.capacity());", "reserve compares capacity with additional only"),
    ("heap_expand_by_one", "C10", "src/mem/heap.rs", "let new_size = cmp::max(self.size() * 2, requested_size);", "let new_size = cmp::max(self.size() + 1, requested_size);", "heap grows linearly"),
    ("stack_capacity_plus1", "C11", "src/mem/stack.rs", "SIZE / element_layout.size()", "SIZE / element_layout.size() + 1", "Stack reports one element more than fits"),
    ("stackn_assert_lt", "C11", "src/mem/stack_n.rs", "assert!(N*element_layout.size() <= SIZE", "assert!(N*element_layout.size() <= SIZE + element_layout.size()", "StackN accepts one element more than fits"),
    ("as_bytes_len_elems", "C12", "src/any_vec.rs", "    pub fn as_bytes(&self) -> &[u8] {\n        unsafe{from_raw_parts(\n            self.raw.mem.as_ptr(),\n            self.len() * self.element_layout().size()", "    pub fn as_bytes(&self) -> &[u8] {\n        unsafe{from_raw_parts(\n            self.raw.mem.as_ptr(),\n            self.len() * self.element_layout().size().min(8)", "as_bytes length wrong for elements wider than 8 bytes"),
    ("size_hint_off", "C14", "src/iter.rs", "        let size = self.end - self.index;\n        (size, Some(size))", "        let size = self.end - self.index;\n        (size, Some(size + 1))", "size_hint upper bound off by one"),
    ("next_back_not_fused", "C14", "src/iter.rs", "        if self.end == self.index{\n            None\n        } else {\n            self.end -= 1;", "        if self.end == self.index && self.end == 0{\n            None\n        } else {\n            self.end -= 1;", "next_back keeps yielding after exhaustion unless at the start"),
    ("remove_ref_self", "C16", "src/any_vec.rs", "    pub fn remove(&mut self, index: usize) -> Remove<Traits, M> {", "    pub fn remove(&self, index: usize) -> Remove<Traits, M> {", "remove takes &self"),
    ("drain_ref_self", "C16", "src/any_vec.rs", "    pub fn drain(&mut self, range: impl RangeBounds<usize>) -> Drain<Traits, M> {", "    pub fn drain(&self, range: impl RangeBounds<usize>) -> Drain<Traits, M> {", "drain takes &self"),
    ("send_drop_traits_bound", "C15", "src/any_vec.rs", "unsafe impl<Traits: ?Sized + Send + Trait, M: MemBuilder + Send> Send for AnyVec<Traits, M>", "unsafe impl<Traits: ?Sized + Trait, M: MemBuilder + Send> Send for AnyVec<Traits, M>", "AnyVec is Send for every constraint set"),
    ("sync_no_mem_bound", "C15", "src/any_vec.rs", "unsafe impl<Traits: ?Sized + Sync + Trait, M: MemBuilder + Sync> Sync for AnyVec<Traits, M>\n    where M::Mem: Sync\n{}", "unsafe impl<Traits: ?Sized + Sync + Trait, M: MemBuilder + Sync> Sync for AnyVec<Traits, M>\n{}", "AnyVec: Sync ignores the Mem"),
    ("realloc_new_layout", "C18", "src/mem/heap.rs", "                                self.mem.as_ptr(), mem_layout,new_mem_size", "                                self.mem.as_ptr(), new_mem_layout,new_mem_size", "realloc presents the new layout as the old one"),
    ("no_dealloc_on_zero", "C18", "src/mem/heap.rs", "                        dealloc(self.mem.as_ptr(), mem_layout);\n                        dangling(&self.element_layout)", "                        if self.size > 1 { dealloc(self.mem.as_ptr(), mem_layout); }\n                        dangling(&self.element_layout)", "a one-element allocation is never returned"),
    ("into_raw_no_manuallydrop", "C17", "src/mem/heap.rs", "        let this = ManuallyDrop::new(self);\n        (this.mem, this.element_layout, this.size)", "        let this = self;\n        (this.mem, this.element_layout, this.size)", "HeapMem::into_raw_parts frees the storage"),
    ("rawparts_layout_swapped", "C17", "src/any_vec.rs", "            len: this.raw.len,\n            element_layout,", "            len: this.raw.len.min(capacity.saturating_sub(1)).max(this.raw.len.min(1)),\n            element_layout,", "into_raw_parts under-reports len of a full vector"),
    ("ungated_alloc", "C19", "src/lib.rs", "mod any_vec;\nmod clone_type;", "extern crate alloc;\nmod any_vec;\nmod clone_type;", "the alloc crate is linked unconditionally"),
    ("swap_remove_copy_when_last", "C01", "src/ops/swap_remove.rs", "        if self.element as *const u8 != last_element {", "        if self.last_index > 1 {", "swap_remove of index 0 in a two-element vector does not move the last element"),
    ("guard_resize_below", "C05", "src/any_vec_raw.rs", "    pub fn shrink_to_fit(&mut self)\n        where M::Mem: MemResizable\n    {\n        self.mem.resize(self.len);", "    pub fn shrink_to_fit(&mut self)\n        where M::Mem: MemResizable\n    {\n        self.mem.resize(self.len.saturating_sub(if self.len == self.capacity() { 0 } else { 1 }));", "shrink_to_fit cuts one element off when there was spare capacity"),
    ("stale_ptr_after_reserve", "C05", "src/ops/splice.rs", "        let mut any_vec_ptr = self.iter.any_vec_ptr;\n", "        let mut any_vec_ptr = self.iter.any_vec_ptr;\n        let stale = unsafe{ element_mut_ptr_at(any_vec_ptr, self.start) };\n", None),
]


def sh(cmd, cwd=None, timeout=3600):
    e = dict(os.environ)
    e["CARGO_NET_OFFLINE"] = "true"
    e["VERIF_EVIDENCE_DIR"] = os.path.join(ROOT, "out", "evidence-scratch")
    p = subprocess.run(cmd, shell=True, cwd=cwd, stdout=subprocess.PIPE, stderr=subprocess.STDOUT, text=True, timeout=timeout, env=e)
    return p.returncode, p.stdout


def main():
    want = set(sys.argv[1:])
    rc, out = sh("git status --porcelain", cwd="/repo")
    if out.strip():
        print("refusing: /repo is not clean")
        return 2
    rows = []
    for (mid, prop, path, old, new, note) in M:
        if note is None or (want and mid not in want):
            continue
        full = os.path.join("/repo", path)
        src = open(full).read()
        if src.count(old) != 1:
            rows.append((mid, prop, "SKIPPED (pattern not found exactly once)", "", note))
            print(mid, "pattern count", src.count(old))
            continue
        try:
            open(full, "w").write(src.replace(old, new))
            rc, out = sh("cargo test --offline 2>&1 | grep -E '^test result|FAILED|^error' | head -20", cwd="/repo")
            suite_ok = "FAILED" not in out and "error" not in out and out.count("test result: ok") >= 8
            if not suite_ok:
                rows.append((mid, prop, "not a valid mutant (suite fails / does not build)", "", note))
                print(mid, "suite does not pass:", out[-200:])
                continue
            t0 = time.time()
            rc, out = sh(f"python3 check.py {prop} --tier quick", cwd=ROOT)
            vio = [l for l in out.splitlines() if l.startswith("VIOLATION")]
            first = ""
            lines = out.splitlines()
            for i, l in enumerate(lines):
                if l.startswith("VIOLATION") and i + 1 < len(lines):
                    first = lines[i + 1].strip()[:160]
                    break
            verdict = "caught" if rc == 1 and vio else ("MISSED" if rc == 0 else f"exit {rc}")
            rows.append((mid, prop, verdict, first.replace("|", "/"), note))
            print(f"{mid} [{prop}] {verdict} ({time.time() - t0:.0f}s) {first}")
        finally:
            sh("git checkout -- .", cwd="/repo")
    with open(os.path.join(ROOT, "selftest", "RESULTS.md"), "w" if not want else "a") as f:
        f.write("| mutant | property | quick check | first report | what it does |\n|---|---|---|---|---|\n")
        for r in rows:
            f.write("| " + " | ".join(r) + " |\n")
    return 0


if __name__ == "__main__":
    sys.exit(main())
