"""Human-written MANIFEST texts per property."""
HOOK_COMMITS = ["d1e2dd7"]
NOT_APPLICABLE = {}
META = {
    "C01": dict(
        text="Differential runtime monitoring against std::vec::Vec: every element-wise operation instance from every abstract state up to the length bound "
             "(small-scope exhaustive, incl. the copy_bytes threshold lengths of every stride) on 69 configurations, plus seeded random histories over three vectors, "
             "on the production-flags build, the debug build and (thorough) the optimised build. Exploration, not proof: bounded by L, the configuration table and the seeds.",
        design_ref="DESIGN.md 3/C01, 1.3, 1.7",
        note="Trusted: std Vec as reference semantics; the element types' own probe/canary; the harness's mirror of each call on the model. Assumes behaviour depends on the state only through (len, capacity class, dirty spare) for the exhaustive part.",
        technique="differential runtime monitor (Vec reference model) over enumerated + random executions",
    ),
}
