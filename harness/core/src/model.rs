//! Reference model: `std::vec::Vec<Id>` per vector, mirrored call by call.

use crate::ops::*;
use crate::reg::Id;
use std::ops::Bound;

#[derive(Clone, Debug)]
pub struct Model {
    pub vecs: Vec<Vec<Id>>,
    /// `Some(cap)` for fixed-capacity backends
    pub fixed_cap: Vec<Option<usize>>,
    pub cloneable: bool,
}

/// Expected observable result of an operation.
#[derive(Clone, Debug, Default)]
pub struct Expect {
    pub out: Outcome,
    /// ids expected to be cloned (one `Clone::clone` event each)
    pub clones: Vec<Id>,
    /// the vector's contents are unspecified-but-valid afterwards (re-synchronise from the real one)
    pub resync: Vec<usize>,
    /// the operation moved at least one element or was rejected at a boundary (non-trivial)
    pub nontrivial: bool,
    /// values leaked on purpose (forget): ids whose instances may stay alive unreachable
    pub leaked: Vec<Id>,
    /// ids that may or may not have been consumed (unspecified after a failed splice)
    pub maybe_lost: Vec<Id>,
    /// the number of clone events is not pinned down (rejected lazy consumption)
    pub clones_lenient: bool,
    /// the operation may legitimately end in a panic or not (a grossly lying iterator: the capacity request is refused
    /// by a panic where storage is needed, and is harmless for zero-sized elements)
    pub panic_optional: bool,
    /// (vector, n): after a documented leak the first n elements must be unchanged and everything
    /// after them must come from the leaked set
    pub prefix_keep: Vec<(usize, usize)>,
}

pub fn resolve_range(lo: &Bound<usize>, hi: &Bound<usize>, len: usize) -> Option<(usize, usize)> {
    let start = match lo {
        Bound::Included(i) => *i,
        Bound::Excluded(i) => i.checked_add(1)?,
        Bound::Unbounded => 0,
    };
    let end = match hi {
        Bound::Included(i) => i.checked_add(1)?,
        Bound::Excluded(i) => *i,
        Bound::Unbounded => len,
    };
    if start > end || end > len {
        return None;
    }
    Some((start, end))
}

impl Model {
    pub fn new(n: usize, fixed_cap: Option<usize>) -> Self {
        Model { vecs: vec![Vec::new(); n], fixed_cap: vec![fixed_cap; n], cloneable: false }
    }

    fn full(&self, v: usize, extra: usize) -> bool {
        match self.fixed_cap[v] {
            Some(c) => self.vecs[v].len() + extra > c,
            None => false,
        }
    }

    /// Evaluate a value source: returns the id it carries; applies side effects on the source vector.
    /// `keep` = the source element stays in place (lazy clone of a reference).
    fn eval_src(&mut self, src: &Src, ex: &mut Expect) -> Id {
        match src {
            Src::Wrapper(i) | Src::Raw(i) | Src::TypelessRaw(i) | Src::SizelessRaw(i) | Src::UserTyped(i) => *i,
            Src::UserLazy(i) => {
                ex.clones.push(*i);
                *i
            }
            Src::Pop(w) | Src::HandleUnchecked(w) => self.vecs[*w].pop().expect("model: pop source empty"),
            Src::Remove(w, j) | Src::Drained(w, j) => self.vecs[*w].remove(*j),
            Src::SwapRemove(w, j) => self.vecs[*w].swap_remove(*j),
            Src::Lazy(kind, w, j, _d) => {
                let id = match kind {
                    LazySrc::Ref | LazySrc::Mut => self.vecs[*w][*j],
                    LazySrc::Pop => self.vecs[*w].pop().unwrap(),
                    LazySrc::Remove | LazySrc::Drained => self.vecs[*w].remove(*j),
                    LazySrc::SwapRemove => self.vecs[*w].swap_remove(*j),
                };
                ex.clones.push(id);
                id
            }
        }
    }

    fn sink(&mut self, mut id: Id, sink: &Sink, ex: &mut Expect) {
        match sink.pre {
            Pre::None | Pre::Inspect => {}
            Pre::Mutate(n) | Pre::SwapWrapper(n) | Pre::SwapRaw(n) => id = n,
        }
        match sink.fin {
            Fin::Drop => {}
            Fin::Downcast | Fin::Ref => ex.out.vals.push(Val::Id(id)),
            Fin::Push(w) => {
                if self.full(w, 1) {
                    ex.out.panicked = true;
                } else {
                    self.vecs[w].push(id)
                }
            }
            Fin::Insert(w, k) => {
                if k > self.vecs[w].len() || self.full(w, 1) {
                    ex.out.panicked = true;
                } else {
                    self.vecs[w].insert(k, id)
                }
            }
            Fin::Forget => ex.leaked.push(id),
        }
    }

    /// A forgotten removal handle: elements at or after the index may be missing (documented leak).
    fn forgotten_handle(&mut self, v: usize, at: usize, sink: &Sink, ex: &mut Expect) {
        if sink.fin == Fin::Forget {
            let tail = self.vecs[v].split_off(at);
            ex.leaked.extend_from_slice(&tail);
            ex.resync.push(v);
            ex.prefix_keep.push((v, at));
        }
    }

    pub fn apply(&mut self, op: &Op) -> Expect {
        let mut ex = Expect::default();
        match op {
            Op::IterScript { v, script, skips, clone_at, end, .. } => {
                ex.nontrivial = !self.vecs[*v].is_empty();
                let items = self.vecs[*v].clone();
                let (mut lo, mut hi) = (0usize, items.len());
                let mut cloned: Option<(usize, usize)> = None;
                for (n, back) in script.iter().enumerate() {
                    if *clone_at == Some(n) {
                        cloned = Some((lo, hi));
                    }
                    ex.out.lens.push(hi - lo);
                    for _ in 0..skips.get(n).copied().unwrap_or(0) {
                        if lo == hi {
                            break;
                        }
                        if *back {
                            hi -= 1;
                        } else {
                            lo += 1;
                        }
                    }
                    if lo == hi {
                        ex.out.vals.push(Val::None);
                    } else if *back {
                        hi -= 1;
                        ex.out.vals.push(Val::Id(items[hi]));
                    } else {
                        lo += 1;
                        ex.out.vals.push(Val::Id(items[lo - 1]));
                    }
                }
                ex.out.lens.push(hi - lo);
                let target = end.index().and_then(|j| items.get(j).copied());
                let (vals, nums) = end.expected(&items[lo..hi], target);
                ex.out.vals.extend(vals);
                ex.out.lens.extend(nums);
                if let Some((a, b)) = cloned {
                    ex.out.lens.push(b - a);
                    ex.out.vals.extend(items[a..b].iter().map(|i| Val::Id(*i)));
                }
            }
            Op::ViewWrite { v, at, via, id, w, j } => {
                ex.nontrivial = true;
                let len = self.vecs[*v].len();
                if *at >= len {
                    ex.out.panicked = true;
                    return ex;
                }
                match via {
                    ViewKind::ElemSwapElem => {
                        let a = self.vecs[*v][*at];
                        let b = self.vecs[*w][*j];
                        self.vecs[*v][*at] = b;
                        self.vecs[*w][*j] = a;
                    }
                    ViewKind::ElemSwapPopHandle => {
                        let b = self.vecs[*w].pop().unwrap();
                        self.vecs[*v][*at] = b;
                    }
                    ViewKind::ElemSwapRemoveHandle => {
                        let b = self.vecs[*w].remove(*j);
                        let a = self.vecs[*v][*at];
                        self.vecs[*v][*at] = b;
                        self.vecs[*w].push(a);
                    }
                    _ => self.vecs[*v][*at] = *id,
                }
            }
            Op::CloneEmptyIn { v, .. } => {
                ex.nontrivial = true;
                let ids = self.vecs[*v].clone();
                ex.out.vals.extend(ids.iter().map(|i| Val::Id(*i)));
                if self.cloneable {
                    ex.out.vals.extend(ids.iter().map(|i| Val::Id(*i)));
                    ex.clones.extend_from_slice(&ids);
                    // ... and once more through lazy clones pushed into the other backend
                    ex.out.vals.extend(ids.iter().map(|i| Val::Id(*i)));
                    ex.clones.extend_from_slice(&ids);
                }
            }
            Op::LazyMulti(m) => {
                ex.nontrivial = true;
                let id = match m.kind {
                    LazySrc::Ref | LazySrc::Mut => self.vecs[m.w][m.j],
                    LazySrc::Pop => self.vecs[m.w].pop().unwrap(),
                    LazySrc::Remove | LazySrc::Drained => self.vecs[m.w].remove(m.j),
                    LazySrc::SwapRemove => self.vecs[m.w].swap_remove(m.j),
                };
                for u in &m.uses {
                    match u {
                        LazyUse::Push(x) => {
                            self.vecs[*x].push(id);
                            ex.clones.push(id);
                        }
                        LazyUse::Insert(x, k) | LazyUse::Splice(x, k) => {
                            self.vecs[*x].insert(*k, id);
                            ex.clones.push(id);
                        }
                        LazyUse::Downcast => {
                            ex.out.vals.push(Val::Id(id));
                            ex.clones.push(id);
                        }
                        LazyUse::DropUnused => {}
                    }
                }
            }
            Op::Push { v, src } => {
                let is_lazy = matches!(src, Src::Lazy(..) | Src::UserLazy(..));
                let id = self.eval_src(src, &mut ex);
                ex.nontrivial = true;
                if self.full(*v, 1) {
                    ex.out.panicked = true;
                    if is_lazy {
                        // rejected consumption: whether the clone was attempted is not pinned down
                        ex.clones_lenient = true;
                    }
                } else {
                    self.vecs[*v].push(id);
                }
            }
            Op::Insert { v, at, src } => {
                let is_lazy = matches!(src, Src::Lazy(..) | Src::UserLazy(..));
                let id = self.eval_src(src, &mut ex);
                ex.nontrivial = true;
                if *at > self.vecs[*v].len() || self.full(*v, 1) {
                    ex.out.panicked = true;
                    if is_lazy {
                        ex.clones_lenient = true;
                    }
                } else {
                    self.vecs[*v].insert(*at, id);
                }
            }
            Op::Pop { v, sink } => match self.vecs[*v].pop() {
                None => ex.out.vals.push(Val::None),
                Some(id) => {
                    ex.nontrivial = true;
                    self.sink(id, sink, &mut ex)
                }
            },
            Op::Remove { v, at, sink } => {
                ex.nontrivial = true;
                if *at >= self.vecs[*v].len() {
                    ex.out.panicked = true;
                } else {
                    let id = self.vecs[*v].remove(*at);
                    self.sink(id, sink, &mut ex);
                    self.forgotten_handle(*v, *at, sink, &mut ex);
                }
            }
            Op::SwapRemove { v, at, sink } => {
                ex.nontrivial = true;
                if *at >= self.vecs[*v].len() {
                    ex.out.panicked = true;
                } else {
                    let id = self.vecs[*v].swap_remove(*at);
                    self.sink(id, sink, &mut ex);
                    self.forgotten_handle(*v, *at, sink, &mut ex);
                }
            }
            Op::Clear { v } | Op::TClear { v } => {
                ex.nontrivial = !self.vecs[*v].is_empty();
                self.vecs[*v].clear();
            }
            Op::TPush { v, id } => {
                ex.nontrivial = true;
                if self.full(*v, 1) {
                    ex.out.panicked = true;
                } else {
                    self.vecs[*v].push(*id);
                }
            }
            Op::TInsert { v, at, id } => {
                ex.nontrivial = true;
                if *at > self.vecs[*v].len() || self.full(*v, 1) {
                    ex.out.panicked = true;
                } else {
                    self.vecs[*v].insert(*at, *id);
                }
            }
            Op::TPop { v } => match self.vecs[*v].pop() {
                None => ex.out.vals.push(Val::None),
                Some(id) => {
                    ex.nontrivial = true;
                    ex.out.vals.push(Val::Id(id))
                }
            },
            Op::TRemove { v, at } => {
                ex.nontrivial = true;
                if *at >= self.vecs[*v].len() {
                    ex.out.panicked = true;
                } else {
                    let id = self.vecs[*v].remove(*at);
                    ex.out.vals.push(Val::Id(id));
                }
            }
            Op::TSwapRemove { v, at } => {
                ex.nontrivial = true;
                if *at >= self.vecs[*v].len() {
                    ex.out.panicked = true;
                } else {
                    let id = self.vecs[*v].swap_remove(*at);
                    ex.out.vals.push(Val::Id(id));
                }
            }
            Op::Get { v, at, how } => {
                let r = self.vecs[*v].get(*at).copied();
                ex.nontrivial = true;
                match (how, r) {
                    (_, Some(id)) => ex.out.vals.push(Val::Id(id)),
                    (GetHow::Get | GetHow::GetMut | GetHow::TGet | GetHow::TGetMut, None) => ex.out.vals.push(Val::None),
                    // never issued out of range (the rig reports `unsupported`, the driver resyncs)
                    (GetHow::GetUnchecked | GetHow::GetUncheckedMut | GetHow::TGetUnchecked | GetHow::TGetUncheckedMut, None) => {}
                    (_, None) => ex.out.panicked = true,
                }
            }
            Op::Iter { v, rev, .. } => {
                ex.nontrivial = !self.vecs[*v].is_empty();
                if *rev {
                    ex.out.vals.extend(self.vecs[*v].iter().rev().map(|i| Val::Id(*i)));
                } else {
                    ex.out.vals.extend(self.vecs[*v].iter().map(|i| Val::Id(*i)));
                }
            }
            Op::Drain { v, lo, hi, script, end, .. } => {
                ex.nontrivial = true;
                let l0 = self.vecs[*v].len();
                let (lo, hi) = (&at_len(*lo, l0), &at_len(*hi, l0));
                let Some((a, b)) = resolve_range(lo, hi, self.vecs[*v].len()) else {
                    ex.out.panicked = true;
                    return ex;
                };
                let range: Vec<Id> = self.vecs[*v].drain(a..b).collect();
                self.run_script(*v, a, range, script, end, &mut ex);
            }
            Op::Splice { v, lo, hi, repl, script, end, .. } => {
                ex.nontrivial = true;
                let l0 = self.vecs[*v].len();
                let (lo, hi) = (&at_len(*lo, l0), &at_len(*hi, l0));
                let Some((a, b)) = resolve_range(lo, hi, self.vecs[*v].len()) else {
                    ex.out.panicked = true;
                    // the replacement iterator was built by the caller and is dropped unconsumed:
                    // a drain of another vector still removes its range when dropped
                    if let Repl::DrainOf(w, a, b) = repl {
                        self.vecs[*w].drain(*a..*b);
                    }
                    return ex;
                };
                let range: Vec<Id> = self.vecs[*v].drain(a..b).collect();
                let (at, unyielded) = self.run_script(*v, a, range, script, end, &mut ex);
                if *end == End::Forget {
                    // replacement is never pulled; its items are leaked / left where they were
                    if let Some(ids) = repl.ids() {
                        ex.leaked.extend_from_slice(ids);
                    }
                    return ex;
                }
                let ids: Vec<Id> = match repl {
                    Repl::Wrappers(x) | Repl::Raws(x) | Repl::Growing(x, _) => x.clone(),
                    Repl::DrainOf(w, a, b) => self.vecs[*w].drain(*a..*b).collect(),
                    Repl::LazyRefs(w, js) => {
                        let ids: Vec<Id> = js.iter().map(|j| self.vecs[*w][*j]).collect();
                        ex.clones.extend_from_slice(&ids);
                        ids
                    }
                    Repl::Lying(x, _) | Repl::Mismatch(x, _) | Repl::MismatchRaw(x, _) => {
                        // unspecified-but-valid result
                        ex.resync.push(*v);
                        ex.maybe_lost.extend_from_slice(x);
                        ex.maybe_lost.extend_from_slice(&unyielded);
                        ex.maybe_lost.extend_from_slice(&self.vecs[*v][at..]);
                        if !matches!(repl, Repl::Lying(..)) {
                            ex.out.panicked = true;
                        }
                        if matches!(repl, Repl::Lying(_, LIE_HUGE)) {
                            ex.panic_optional = true;
                        }
                        return ex;
                    }
                };
                if let Some(c) = self.fixed_cap[*v] {
                    if self.vecs[*v].len() + ids.len() > c {
                        ex.out.panicked = true;
                        ex.resync.push(*v);
                        ex.maybe_lost.extend_from_slice(&ids);
                        // the panic unwinds out of the splice: unyielded items and the tail may be leaked
                        ex.maybe_lost.extend_from_slice(&unyielded);
                        ex.maybe_lost.extend_from_slice(&self.vecs[*v][at..]);
                        if matches!(repl, Repl::LazyRefs(..)) {
                            ex.clones_lenient = true;
                        }
                        return ex;
                    }
                }
                let tail = self.vecs[*v].split_off(at);
                self.vecs[*v].extend_from_slice(&ids);
                self.vecs[*v].extend_from_slice(&tail);
            }
            Op::CloneVec { v, into } => {
                ex.nontrivial = true;
                let c = self.vecs[*v].clone();
                if let Some(cap) = self.fixed_cap[*into] {
                    debug_assert!(c.len() <= cap);
                }
                ex.clones.extend_from_slice(&c);
                self.vecs[*into] = c;
            }
            Op::CloneEmpty { into, .. } => {
                ex.nontrivial = true;
                self.vecs[*into].clear();
            }
            Op::Reserve { v, n, .. } => {
                ex.nontrivial = true;
                if self.vecs[*v].len().checked_add(*n).is_none() {
                    ex.out.panicked = true;
                }
            }
            Op::ShrinkToFit { .. } | Op::ShrinkTo { .. } | Op::RawRoundTrip { .. } => {
                ex.nontrivial = true;
            }
        }
        ex
    }

    /// Runs the consumption script over the removed `range`; the vector already is prefix+suffix.
    /// Returns the insertion point (start of the range).
    fn run_script(&mut self, v: usize, a: usize, range: Vec<Id>, script: &[Step], end: &End, ex: &mut Expect) -> (usize, Vec<Id>) {
        let mut lo = 0usize;
        let mut hi = range.len();
        for st in script {
            ex.out.lens.push(hi - lo);
            if lo == hi {
                ex.out.vals.push(Val::None);
                continue;
            }
            // nth(k): k items are consumed (destroyed) by the iterator itself first
            let mut exhausted = false;
            for _ in 0..st.skip {
                if lo == hi {
                    exhausted = true;
                    break;
                }
                if st.back {
                    hi -= 1;
                } else {
                    lo += 1;
                }
            }
            if exhausted || lo == hi {
                ex.out.vals.push(Val::None);
                continue;
            }
            let id = if st.back {
                hi -= 1;
                range[hi]
            } else {
                lo += 1;
                range[lo - 1]
            };
            // yielded items are reported, then consumed by their sink
            ex.out.vals.push(Val::Id(id));
            let mut sub = Expect::default();
            self.sink(id, &st.sink, &mut sub);
            ex.out.vals.extend(sub.out.vals);
            ex.leaked.extend(sub.leaked);
            if sub.out.panicked {
                // the sink rejected the item (e.g. destination full): the panic unwinds out of the whole
                // operation, the rest of the script never runs; the iterator's drop still finishes its job
                ex.out.panicked = true;
                break;
            }
        }
        ex.out.lens.push(hi - lo);
        if !ex.out.panicked {
            // the element that was at absolute index j before the operation (the range has already been cut out of the model)
            let target = end.index().and_then(|j| {
                let r = range.len();
                if j < a {
                    self.vecs[v].get(j).copied()
                } else if j < a + r {
                    Some(range[j - a])
                } else {
                    self.vecs[v].get(j - r).copied()
                }
            });
            let (vals, nums) = end.expected(&range[lo..hi], target);
            ex.out.vals.extend(vals);
            ex.out.lens.extend(nums);
        }
        if *end == End::Forget {
            // documented leak: everything at or after the range start may be missing
            ex.leaked.extend_from_slice(&range[lo..hi]);
            let tail: Vec<Id> = self.vecs[v].split_off(a);
            ex.leaked.extend_from_slice(&tail);
            ex.resync.push(v);
            ex.prefix_keep.push((v, a));
        }
        (a, range[lo..hi].to_vec())
    }
}
