//! Capability dispatch: Rust has no specialisation, so what depends on the constraint set
//! (`Cloneable`) or on the backend (`MemResizable`, `MemRawParts`, fixed capacity) is routed
//! through these traits, implemented once per concrete constraint set / backend.

use any_vec::any_value::{AnyValue, AnyValueCloneable};
use any_vec::mem::{MemBuilder, Stack, StackN};
use any_vec::traits::{Cloneable, None as TNone, Trait};
use any_vec::{AnyVec, SatisfyTraits};

use hvcore::elems::Elem;
use crate::guardmem::GuardMem;
use hvcore::ops::{End, LazyMulti, LazySrc, Step};
pub use hvcore::rigapi::MemKind;
use crate::rig::Cx;
use std::ops::Bound;

#[inline]
pub fn put<Tr: ?Sized + Trait, M: MemBuilder, V: AnyValue>(dst: &mut AnyVec<Tr, M>, at: Option<usize>, val: V) {
    match at {
        None => dst.push(val),
        Some(i) => dst.insert(i, val),
    }
}

#[inline]
pub fn put_unchecked<Tr: ?Sized + Trait, M: MemBuilder, V: any_vec::any_value::AnyValueSizeless>(dst: &mut AnyVec<Tr, M>, at: Option<usize>, val: V) {
    // only called with a value of the element type and an index in range (the harness checks the index first)
    unsafe {
        match at {
            None => dst.push_unchecked(val),
            Some(i) => dst.insert_unchecked(i, val),
        }
    }
}

fn put_lazy<Tr: ?Sized + Trait, M: MemBuilder, C: AnyValueCloneable + AnyValue>(
    dst: &mut AnyVec<Tr, M>,
    at: Option<usize>,
    c: &C,
    depth: u8,
) {
    match depth {
        0 | 1 => put(dst, at, c.lazy_clone()),
        // the same through the `_unchecked` entry points
        11 => put_unchecked(dst, at, c.lazy_clone()),
        12 => {
            let l1 = c.lazy_clone();
            put_unchecked(dst, at, l1.lazy_clone())
        }
        // built with the constructor instead of the trait method
        21 => put(dst, at, any_vec::any_value::LazyClone::new(c)),
        2 => {
            let l1 = c.lazy_clone();
            put(dst, at, l1.lazy_clone())
        }
        _ => {
            let l1 = c.lazy_clone();
            let l2 = l1.lazy_clone();
            let l2b = l2.clone();
            put(dst, at, l2b.lazy_clone())
        }
    }
}

fn lazy_put_impl<Tr: ?Sized + Trait + Cloneable, M: MemBuilder, M2: MemBuilder>(
    dst: &mut AnyVec<Tr, M2>,
    at: Option<usize>,
    kind: LazySrc,
    src: &mut AnyVec<Tr, M>,
    j: usize,
    depth: u8,
) {
    match kind {
        LazySrc::Ref => {
            let r = src.at(j);
            put_lazy(dst, at, &*r, depth)
        }
        LazySrc::Mut => {
            let r = src.at_mut(j);
            put_lazy(dst, at, &*r, depth)
        }
        LazySrc::Pop => {
            let h = src.pop().expect("lazy source: pop on empty");
            put_lazy(dst, at, &h, depth);
            drop(h)
        }
        LazySrc::Remove => {
            let h = src.remove(j);
            put_lazy(dst, at, &h, depth);
            drop(h)
        }
        LazySrc::SwapRemove => {
            let h = src.swap_remove(j);
            put_lazy(dst, at, &h, depth);
            drop(h)
        }
        LazySrc::Drained => {
            let mut d = src.drain(j..j + 1);
            let e = d.next().expect("lazy source: drained element");
            put_lazy(dst, at, &e, depth);
            drop(e);
            drop(d)
        }
    }
}

pub trait TrCaps: Trait + 'static {
    const NAME: &'static str;
    const CLONEABLE: bool;
    const SEND: bool;
    const SYNC: bool;
    fn clone_vec<M: MemBuilder>(v: &AnyVec<Self, M>) -> Option<AnyVec<Self, M>>;
    /// push / insert a lazy clone; false when the constraint set is not cloneable
    fn lazy_put<M: MemBuilder, M2: MemBuilder>(
        dst: &mut AnyVec<Self, M2>,
        at: Option<usize>,
        kind: LazySrc,
        src: &mut AnyVec<Self, M>,
        j: usize,
        depth: u8,
    ) -> bool;
    /// `vecs[v].splice(range, lazy clones of vecs[w][j] for j in js)` + consumption script;
    /// false when the constraint set is not cloneable.
    fn splice_lazy<T: Elem + SatisfyTraits<Self>, M: MemCaps>(
        cx: &mut Cx<T, M, Self>,
        v: usize,
        range: (Bound<usize>, Bound<usize>),
        w: usize,
        js: &[usize],
        script: &[Step],
        end: End,
    ) -> bool;
    /// C09: several consumptions of lazy clones of one source (see `rig::lazy_multi_impl`).
    fn lazy_multi<T: Elem + SatisfyTraits<Self>, M: MemCaps>(cx: &mut Cx<T, M, Self>, spec: &LazyMulti) -> bool;
    /// Clone-function identity (address), for raw-parts comparison.
    fn clone_fn_addr<M: MemBuilder>(v: &AnyVec<Self, M>) -> Option<usize>;
}

macro_rules! trcaps {
    ($t:ty, $name:expr, cloneable, $send:expr, $sync:expr) => {
        impl TrCaps for $t {
            const NAME: &'static str = $name;
            const CLONEABLE: bool = true;
            const SEND: bool = $send;
            const SYNC: bool = $sync;
            fn clone_vec<M: MemBuilder>(v: &AnyVec<Self, M>) -> Option<AnyVec<Self, M>> {
                Some(v.clone())
            }
            fn lazy_put<M: MemBuilder, M2: MemBuilder>(
                dst: &mut AnyVec<Self, M2>, at: Option<usize>, kind: LazySrc, src: &mut AnyVec<Self, M>, j: usize, depth: u8,
            ) -> bool {
                lazy_put_impl(dst, at, kind, src, j, depth);
                true
            }
            fn splice_lazy<T: Elem + SatisfyTraits<Self>, M: MemCaps>(
                cx: &mut Cx<T, M, Self>, v: usize, range: (Bound<usize>, Bound<usize>), w: usize, js: &[usize], script: &[Step], end: End,
            ) -> bool {
                crate::rig::splice_lazy_impl(cx, v, range, w, js, script, end);
                true
            }
            fn lazy_multi<T: Elem + SatisfyTraits<Self>, M: MemCaps>(cx: &mut Cx<T, M, Self>, spec: &LazyMulti) -> bool {
                crate::rig::lazy_multi_impl(cx, spec);
                true
            }
            fn clone_fn_addr<M: MemBuilder>(v: &AnyVec<Self, M>) -> Option<usize> {
                Some(v.element_clone() as usize)
            }
        }
    };
    ($t:ty, $name:expr, plain, $send:expr, $sync:expr) => {
        impl TrCaps for $t {
            const NAME: &'static str = $name;
            const CLONEABLE: bool = false;
            const SEND: bool = $send;
            const SYNC: bool = $sync;
            fn clone_vec<M: MemBuilder>(_v: &AnyVec<Self, M>) -> Option<AnyVec<Self, M>> {
                None
            }
            fn lazy_put<M: MemBuilder, M2: MemBuilder>(
                _dst: &mut AnyVec<Self, M2>, _at: Option<usize>, _kind: LazySrc, _src: &mut AnyVec<Self, M>, _j: usize, _depth: u8,
            ) -> bool {
                false
            }
            fn splice_lazy<T: Elem + SatisfyTraits<Self>, M: MemCaps>(
                _cx: &mut Cx<T, M, Self>, _v: usize, _range: (Bound<usize>, Bound<usize>), _w: usize, _js: &[usize], _script: &[Step], _end: End,
            ) -> bool {
                false
            }
            fn lazy_multi<T: Elem + SatisfyTraits<Self>, M: MemCaps>(_cx: &mut Cx<T, M, Self>, _spec: &LazyMulti) -> bool {
                false
            }
            fn clone_fn_addr<M: MemBuilder>(_v: &AnyVec<Self, M>) -> Option<usize> {
                None
            }
        }
    };
}
trcaps!(dyn TNone, "None", plain, false, false);
trcaps!(dyn Send, "Send", plain, true, false);
trcaps!(dyn Sync, "Sync", plain, false, true);
trcaps!(dyn Send + Sync, "Send+Sync", plain, true, true);
trcaps!(dyn Cloneable, "Cloneable", cloneable, false, false);
trcaps!(dyn Cloneable + Send, "Cloneable+Send", cloneable, true, false);
trcaps!(dyn Cloneable + Sync, "Cloneable+Sync", cloneable, false, true);
trcaps!(dyn Cloneable + Send + Sync, "Cloneable+Send+Sync", cloneable, true, true);

// ---------------------------------------------------------------------------------------------
// backends

pub trait MemCaps: MemBuilder + 'static {
    const NAME: &'static str;
    const KIND: MemKind;
    const RESIZABLE: bool;
    fn builder() -> Self;
    /// capacity of a fixed backend for an element of `size` bytes
    fn fixed_cap(elem_size: usize) -> Option<usize>;
    fn new_vec<Tr: ?Sized + TrCaps, T: Elem + SatisfyTraits<Tr>>(cap: usize) -> AnyVec<Tr, Self>;
    fn reserve<Tr: ?Sized + TrCaps, T: Elem>(v: &mut AnyVec<Tr, Self>, n: usize, exact: bool, typed: bool) -> bool;
    fn shrink<Tr: ?Sized + TrCaps, T: Elem>(v: &mut AnyVec<Tr, Self>, to: Option<usize>, typed: bool) -> bool;
    /// into_raw_parts / from_raw_parts `times` times; reports field mismatches through `note`.
    fn round_trip<Tr: ?Sized + TrCaps>(v: AnyVec<Tr, Self>, times: u8, note: &mut dyn FnMut(std::fmt::Arguments)) -> (AnyVec<Tr, Self>, bool);
}

macro_rules! resizable_impl {
    () => {
        fn reserve<Tr: ?Sized + TrCaps, T: Elem>(v: &mut AnyVec<Tr, Self>, n: usize, exact: bool, typed: bool) -> bool {
            if typed {
                let mut tv = v.downcast_mut::<T>().expect("typed view of the right type");
                if exact { tv.reserve_exact(n) } else { tv.reserve(n) }
            } else if exact {
                v.reserve_exact(n)
            } else {
                v.reserve(n)
            }
            true
        }
        fn shrink<Tr: ?Sized + TrCaps, T: Elem>(v: &mut AnyVec<Tr, Self>, to: Option<usize>, typed: bool) -> bool {
            if typed {
                let mut tv = v.downcast_mut::<T>().expect("typed view of the right type");
                match to {
                    None => tv.shrink_to_fit(),
                    Some(m) => tv.shrink_to(m),
                }
            } else {
                match to {
                    None => v.shrink_to_fit(),
                    Some(m) => v.shrink_to(m),
                }
            }
            true
        }
    };
}
macro_rules! fixed_impl {
    () => {
        fn reserve<Tr: ?Sized + TrCaps, T: Elem>(_v: &mut AnyVec<Tr, Self>, _n: usize, _exact: bool, _typed: bool) -> bool {
            false
        }
        fn shrink<Tr: ?Sized + TrCaps, T: Elem>(_v: &mut AnyVec<Tr, Self>, _to: Option<usize>, _typed: bool) -> bool {
            false
        }
        fn round_trip<Tr: ?Sized + TrCaps>(v: AnyVec<Tr, Self>, _times: u8, _note: &mut dyn FnMut(std::fmt::Arguments)) -> (AnyVec<Tr, Self>, bool) {
            (v, false)
        }
    };
}

#[cfg(feature = "alloc")]
mod heap_caps {
    use super::*;
    use any_vec::mem::Heap;
    use any_vec::RawParts;

    impl MemCaps for Heap {
        const NAME: &'static str = "Heap";
        const KIND: MemKind = MemKind::Heap;
        const RESIZABLE: bool = true;
        fn builder() -> Self {
            Heap
        }
        fn fixed_cap(_s: usize) -> Option<usize> {
            None
        }
        fn new_vec<Tr: ?Sized + TrCaps, T: Elem + SatisfyTraits<Tr>>(cap: usize) -> AnyVec<Tr, Self> {
            if cap == 0 { AnyVec::new::<T>() } else { AnyVec::with_capacity::<T>(cap) }
        }
        resizable_impl!();
        fn round_trip<Tr: ?Sized + TrCaps>(v: AnyVec<Tr, Self>, times: u8, note: &mut dyn FnMut(std::fmt::Arguments)) -> (AnyVec<Tr, Self>, bool) {
            let mut v = v;
            for _ in 0..times {
                let len = v.len();
                let cap = v.capacity();
                let layout = v.element_layout();
                let tid = v.element_typeid();
                let dropf = v.element_drop().map(|f| f as usize);
                let clonef = Tr::clone_fn_addr(&v);
                let base = v.as_bytes().as_ptr() as usize;
                let parts: RawParts<Heap> = v.into_raw_parts();
                if parts.len != len { note(format_args!("RawParts.len={} but vector len was {}", parts.len, len)); }
                if parts.capacity != cap { note(format_args!("RawParts.capacity={} but vector capacity was {}", parts.capacity, cap)); }
                if parts.element_layout != layout { note(format_args!("RawParts.element_layout={:?} != {:?}", parts.element_layout, layout)); }
                if parts.element_typeid != tid { note(format_args!("RawParts.element_typeid differs")); }
                if parts.element_drop.map(|f| f as usize) != dropf { note(format_args!("RawParts.element_drop differs")); }
                if let Some(c) = clonef {
                    if parts.element_clone as usize != c { note(format_args!("RawParts.element_clone differs")); }
                }
                if parts.mem_handle.as_ptr() as usize != base { note(format_args!("RawParts.mem_handle={:#x} but storage was at {:#x}", parts.mem_handle.as_ptr() as usize, base)); }
                let c2 = parts.clone();
                if c2.len != parts.len { note(format_args!("RawParts::clone().len={} but original len={}", c2.len, parts.len)); }
                if c2.capacity != parts.capacity { note(format_args!("RawParts::clone().capacity={} but original={}", c2.capacity, parts.capacity)); }
                if c2.element_layout != parts.element_layout { note(format_args!("RawParts::clone().element_layout differs")); }
                if c2.element_typeid != parts.element_typeid { note(format_args!("RawParts::clone().element_typeid differs")); }
                if c2.element_drop.map(|f| f as usize) != parts.element_drop.map(|f| f as usize) { note(format_args!("RawParts::clone().element_drop differs")); }
                if c2.element_clone as usize != parts.element_clone as usize { note(format_args!("RawParts::clone().element_clone differs")); }
                if c2.mem_handle != parts.mem_handle { note(format_args!("RawParts::clone().mem_handle differs")); }
                v = unsafe { AnyVec::from_raw_parts(parts) };
            }
            (v, true)
        }
    }
}

impl MemCaps for GuardMem {
    const NAME: &'static str = "Guard";
    const KIND: MemKind = MemKind::Guard;
    const RESIZABLE: bool = true;
    fn builder() -> Self {
        GuardMem::default()
    }
    fn fixed_cap(_s: usize) -> Option<usize> {
        None
    }
    fn new_vec<Tr: ?Sized + TrCaps, T: Elem + SatisfyTraits<Tr>>(cap: usize) -> AnyVec<Tr, Self> {
        if cap == 0 { AnyVec::new_in::<T>(GuardMem::default()) } else { AnyVec::with_capacity_in::<T>(cap, GuardMem::default()) }
    }
    resizable_impl!();
    fn round_trip<Tr: ?Sized + TrCaps>(v: AnyVec<Tr, Self>, _times: u8, _note: &mut dyn FnMut(std::fmt::Arguments)) -> (AnyVec<Tr, Self>, bool) {
        (v, false)
    }
}

impl<const SIZE: usize> MemCaps for Stack<SIZE> {
    const NAME: &'static str = "Stack";
    const KIND: MemKind = MemKind::Stack;
    const RESIZABLE: bool = false;
    fn builder() -> Self {
        Stack::<SIZE>
    }
    fn fixed_cap(s: usize) -> Option<usize> {
        Some(if s == 0 { usize::MAX } else { SIZE / s })
    }
    fn new_vec<Tr: ?Sized + TrCaps, T: Elem + SatisfyTraits<Tr>>(_cap: usize) -> AnyVec<Tr, Self> {
        AnyVec::new::<T>()
    }
    fixed_impl!();
}

impl<const N: usize, const SIZE: usize> MemCaps for StackN<N, SIZE> {
    const NAME: &'static str = "StackN";
    const KIND: MemKind = MemKind::StackN;
    const RESIZABLE: bool = false;
    fn builder() -> Self {
        StackN::<N, SIZE>
    }
    fn fixed_cap(_s: usize) -> Option<usize> {
        Some(N)
    }
    fn new_vec<Tr: ?Sized + TrCaps, T: Elem + SatisfyTraits<Tr>>(_cap: usize) -> AnyVec<Tr, Self> {
        AnyVec::new::<T>()
    }
    fixed_impl!();
}
