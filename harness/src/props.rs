//! Per-property workloads: which families run and which symptom kinds decide the property.

use crate::configs;
use hvcore::drive::Ctx;
use hvcore::fam::{self, HistParams};

pub const REGISTRY_KINDS: [&str; 8] = ["double-drop", "corrupt-drop", "corrupt-clone", "clone-of-dead", "dup", "dead-visible", "leak", "value-accounting"];

pub fn kinds_for(prop: &str) -> Vec<&'static str> {
    let mut k: Vec<&'static str> = match prop {
        "C01" => vec!["model", "garbage", "clone-count"],
        "C02" => vec!["model", "garbage", "iter", "clone-count"],
        "C03" => REGISTRY_KINDS.to_vec(),
        "C08" => vec!["model", "garbage", "clone-count", "shared-storage", "handle", "meta", "double-drop", "corrupt-drop", "dup", "dead-visible", "leak", "value-accounting", "len>cap", "guard", "rawparts"],
        "C09" => vec!["model", "clone-count", "lazy", "dup", "double-drop", "handle"],
        "C10" => vec!["capacity", "len>cap", "model", "garbage"],
        "C14" => vec!["iter", "model"],
        "C04" => vec!["type-admit", "type-reject", "type-meta", "meta", "model", "clone-count", "double-drop", "corrupt-drop", "dup", "leak"],
        "C12" => vec!["view", "align", "garbage", "meta"],
        "C05" => vec!["guard", "stale-write", "garbage", "corrupt-drop", "corrupt-clone", "len>cap", "lifecycle", "crash", "alloc-layout"],
        "C11" => vec!["model", "garbage", "capacity", "stack-alloc", "clone-count"],
        "C18" => vec!["alloc-shape", "alloc-layout", "alloc-invalid", "alloc-leak", "align", "meta", "rawparts"],
        "C06" => vec!["double-drop", "corrupt-drop", "corrupt-clone", "clone-of-dead", "dup", "dead-visible", "garbage", "model", "guard", "stale-write", "len>cap", "crash", "meta", "view"],
        "C19" => vec!["model", "garbage", "stack-alloc", "capacity", "iter", "clone-count", "double-drop", "leak", "dup", "type-admit", "type-reject", "view", "handle"],
        "C07" => vec!["forget-prefix", "model", "garbage", "dup", "dead-visible", "double-drop", "corrupt-drop", "iter"],
        "C13" => vec!["handle", "model", "garbage", "view"],
        "C17" => vec!["rawparts", "model", "garbage", "leak", "double-drop", "alloc-leak", "alloc-shape", "alloc-layout", "alloc-invalid", "dup"],
        _ => vec![],
    };
    k.push("harness");
    k
}

fn hist(thorough: bool, elems: bool, ranges: bool, capacity: bool, clones: bool) -> HistParams {
    if cfg!(miri) || std::env::args().any(|a| a == "--sample") {
        return HistParams { histories: 1, ops: if thorough { 150 } else { 30 }, max_len: 20, ranges, elems, capacity, clones, invalid_pct: 6 };
    }
    HistParams {
        histories: if thorough { 400 } else { 12 },
        ops: if thorough { 2000 } else { 300 },
        max_len: if thorough { 5000 } else { 200 },
        ranges,
        elems,
        capacity,
        clones,
        invalid_pct: 6,
    }
}

#[cfg(feature = "alloc")]
fn scale(ctx: &mut Ctx) {
    crate::scale::run(ctx)
}
#[cfg(not(feature = "alloc"))]
fn scale(_ctx: &mut Ctx) {}

pub fn run(ctx: &mut Ctx) {
    let mut cfgs = configs::all();
    if ctx.sub == "light" || ctx.tool_mode {
        cfgs.retain(|c| c.core);
    }
    // tool modes select a backend class (different Miri flags) and may exclude pointer-carrying elements
    if let Some(m) = std::env::args().collect::<Vec<_>>().windows(2).find(|w| w[0] == "--mem").map(|w| w[1].clone()) {
        use hvcore::rigapi::MemKind;
        cfgs.retain(|c| match m.as_str() {
            "stack" => matches!(c.mem, MemKind::Stack | MemKind::StackN),
            "heapguard" => matches!(c.mem, MemKind::Heap | MemKind::Guard),
            _ => true,
        });
    }
    if std::env::args().any(|a| a == "--pointer-free") {
        cfgs.retain(|c| !c.elem.heap);
    }
    let thorough = ctx.thorough();
    let mut l = if thorough { 7 } else { 5 };
    if let Some(x) = std::env::args().collect::<Vec<_>>().windows(2).find(|w| w[0] == "--L").and_then(|w| w[1].parse::<usize>().ok()) {
        l = x;
    }
    match ctx.prop.as_str() {
        "C01" => {
            fam::exhaustive(ctx, "elem", &cfgs, l, true, &fam::elem_seqs);
            fam::histories(ctx, "elem-hist", &cfgs, &hist(thorough, true, false, true, false));
            scale(ctx);
            crate::special::stack_overaligned(ctx);
        }
        "C02" => {
            fam::exhaustive(ctx, "range", &cfgs, l, true, &fam::range_ops);
            fam::histories(ctx, "range-hist", &cfgs, &hist(thorough, false, true, false, false));
            // the typed range handles keep yielding the right items when the vector grows under them
            crate::special::c05_live_growth(ctx);
            scale(ctx);
            crate::special::c14_large(ctx);
            scale(ctx);
        }
        "C03" => {
            fam::exhaustive(ctx, "elem", &cfgs, l.min(5), false, &fam::elem_seqs);
            fam::exhaustive(ctx, "range", &cfgs, l.min(5) - 1, false, &fam::range_ops);
            fam::exhaustive(ctx, "clone", &cfgs, 3, false, &fam::clone_ops);
            fam::exhaustive(ctx, "lazy", &cfgs, 2, false, &fam::lazy_ops);
            fam::histories(ctx, "mixed-hist", &cfgs, &hist(thorough, true, true, true, true));
            crate::special::c08_clone_from(ctx);
            scale(ctx);
        }
        "C08" => {
            cfgs.retain(|c| c.cloneable);
            fam::exhaustive(ctx, "clone", &cfgs, l, false, &fam::clone_ops);
            crate::special::c08_clone_from(ctx);
            crate::special::meta_grid(ctx);
            crate::special::prealloc_backend(ctx);
            crate::special::c17_builders(ctx);
            scale(ctx);
        }
        "C09" => {
            cfgs.retain(|c| c.cloneable);
            fam::exhaustive(ctx, "lazy", &cfgs, l.min(5), false, &fam::lazy_ops);
            // every way of handing a lazy clone to push / insert (checked and unchecked entry points, `LazyClone::new`, lazy clones
            // of a user-implemented cloneable value), from small states
            fam::exhaustive(ctx, "elem", &cfgs, 2, false, &fam::elem_seqs);
        }
        "C10" => {
            cfgs.retain(|c| c.resizable);
            fam::exhaustive(ctx, "capacity", &cfgs, l, false, &fam::cap_ops);
            fam::histories(ctx, "capacity-hist", &cfgs, &hist(thorough, true, true, true, false));
            crate::special::c10_amortised(ctx);
            crate::special::c10_large(ctx);
            crate::special::c08_clone_from(ctx);
        }
        "C04" => {
            crate::special::c04(ctx);
            // a vector that takes over another element type (clone_from) must take over all of it; getters across backends
            crate::special::c08_clone_from(ctx);
            crate::special::meta_grid(ctx);
            crate::special::swap_type_mismatch(ctx);
        }
        "C12" => {
            crate::special::c12(ctx);
            crate::special::stack_overaligned(ctx);
            // alignment and byte-view coherence are also watched after every step of the generic families,
            // so that histories (grow, empty, shrink to zero, regrow, clone, round trips) are covered
            if ctx.sub != "light" {
                let sub: Vec<_> = cfgs.iter().filter(|c| c.resizable || c.elem.align <= 8).cloned().collect();
                fam::exhaustive(ctx, "capacity", &sub, l, false, &fam::cap_ops);
                fam::exhaustive(ctx, "clone", &sub, 3, false, &fam::clone_ops);
                fam::exhaustive(ctx, "elem", &sub, 3, false, &fam::elem_seqs);
                fam::histories(ctx, "mixed-hist", &sub, &hist(thorough, true, true, true, true));
                crate::special::c10_large(ctx);
                crate::special::meta_grid(ctx);
                crate::special::c08_clone_from(ctx);
            }
            scale(ctx);
        }
        "C14" => {
            fam::exhaustive(ctx, "iter", &cfgs, l, false, &fam::iter_ops);
            fam::exhaustive(ctx, "range", &cfgs, l, false, &fam::range_ops);
            crate::special::c14_large(ctx);
            scale(ctx);
        }
        "C05" => {
            use hvcore::rigapi::MemKind;
            let stack_only = std::env::args().collect::<Vec<_>>().windows(2).any(|w| w[0] == "--mem" && w[1] == "stack");
            if !stack_only {
                cfgs.retain(|c| matches!(c.mem, MemKind::Guard | MemKind::Heap));
            }
            let growths: &[hvcore::guard::Growth] = if ctx.sampled && !thorough {
                &[hvcore::guard::Growth::Exact]
            } else {
                &[hvcore::guard::Growth::Exact, hvcore::guard::Growth::Double, hvcore::guard::Growth::Slack3]
            };
            for g in growths.iter().copied() {
                hvcore::guard::set_default_growth(g);
                let sub: Vec<_> = cfgs.iter().filter(|c| g == hvcore::guard::Growth::Exact || (c.mem == MemKind::Guard && c.core)).cloned().collect();
                let tag = format!("{g:?}");
                fam::exhaustive(ctx, &format!("elem/{tag}"), &sub, l.min(5), true, &fam::elem_seqs);
                fam::exhaustive(ctx, &format!("range/{tag}"), &sub, l.min(5) - 1, false, &fam::range_ops);
                fam::exhaustive(ctx, &format!("clone/{tag}"), &sub, 3, false, &fam::clone_ops);
                fam::histories(ctx, &format!("mixed-hist/{tag}"), &sub, &hist(thorough, true, true, true, true));
                // replacement iterators that misreport their length (the write loop and the tail move must stay in bounds)
                let tracked: Vec<_> = sub.iter().filter(|c| c.core).cloned().collect();
                fam::lying_enum(ctx, &format!("lying/{tag}"), &tracked, 3);
            }
            hvcore::guard::set_default_growth(hvcore::guard::Growth::Exact);
            if !stack_only {
                crate::special::c08_clone_from(ctx);
                crate::special::prealloc_backend(ctx);
                crate::special::c05_live_growth(ctx);
                scale(ctx);
                crate::special::c10_large(ctx);
            }
        }
        "C11" => {
            use hvcore::rigapi::MemKind;
            cfgs.retain(|c| matches!(c.mem, MemKind::Stack | MemKind::StackN));
            fam::exhaustive(ctx, "elem", &cfgs, l, true, &fam::elem_seqs);
            fam::exhaustive(ctx, "range", &cfgs, l, false, &fam::range_ops);
            fam::exhaustive(ctx, "clone", &cfgs, l, false, &fam::clone_ops);
            fam::exhaustive(ctx, "lazy", &cfgs, l.min(5), false, &fam::lazy_ops);
            fam::histories(ctx, "mixed-hist", &cfgs, &hist(thorough, true, true, false, true));
            crate::special::c11_grid(ctx);
            crate::special::stack_overaligned(ctx);
        }
        "C19" => {
            use hvcore::rigapi::MemKind;
            cfgs.retain(|c| matches!(c.mem, MemKind::Stack | MemKind::StackN));
            fam::exhaustive(ctx, "elem", &cfgs, l, true, &fam::elem_seqs);
            fam::exhaustive(ctx, "range", &cfgs, l, false, &fam::range_ops);
            fam::exhaustive(ctx, "clone", &cfgs, l, false, &fam::clone_ops);
            fam::exhaustive(ctx, "lazy", &cfgs, 3, false, &fam::lazy_ops);
            fam::histories(ctx, "mixed-hist", &cfgs, &hist(thorough, true, true, false, true));
            crate::special::c11_grid(ctx);
            crate::special::stack_overaligned(ctx);
            crate::special::swap_type_mismatch(ctx);
        }
        "C18" => {
            cfgs.retain(|c| c.mem == hvcore::rigapi::MemKind::Heap && !c.elem.heap);
            fam::exhaustive(ctx, "elem", &cfgs, l.min(5), true, &fam::elem_seqs);
            fam::exhaustive(ctx, "range", &cfgs, l.min(5) - 1, false, &fam::range_ops);
            fam::exhaustive(ctx, "capacity", &cfgs, l, false, &fam::cap_ops);
            fam::exhaustive(ctx, "clone", &cfgs, 3, false, &fam::clone_ops);
            fam::histories(ctx, "mixed-hist", &cfgs, &hist(thorough, true, true, true, true));
            if ctx.sub != "light" && !ctx.tool_mode {
                crate::special::c18_overflow(ctx);
                crate::special::c08_clone_from(ctx);
                crate::special::c17_builders(ctx);
                crate::special::meta_grid(ctx);
                scale(ctx);
                crate::special::c10_large(ctx);
            }
        }
        "C06" => {
            use hvcore::rigapi::MemKind;
            cfgs.retain(|c| c.elem.tracked && (matches!(c.mem, MemKind::Guard | MemKind::Heap) || c.core));
            let lf = if thorough { 5 } else { 3 };
            fam::fault_enum(ctx, "fault/elem", &cfgs, lf, &fam::elem_seqs, 1);
            fam::fault_enum(ctx, "fault/range", &cfgs, lf, &fam::range_ops, if thorough { 1 } else { 3 });
            fam::fault_enum(ctx, "fault/clone", &cfgs, lf, &fam::clone_ops, if thorough { 1 } else { 5 });
            fam::fault_enum(ctx, "fault/lazy", &cfgs, 2, &fam::lazy_ops, if thorough { 1 } else { 7 });
            fam::lying_enum(ctx, "lying", &cfgs, lf);
            // bulk operations at lengths beyond the small scope: a panic at the 9th, 17th ... destructor or clone of one call
            let big: &[usize] = if thorough { &[9, 12, 17, 33] } else { &[9, 17] };
            let core: Vec<_> = cfgs.iter().filter(|c| c.core).cloned().collect();
            fam::fault_enum_lens(
                ctx,
                "fault/bulk",
                &core,
                &|cfg| big.iter().copied().filter(|n| cfg.fixed_cap.map_or(true, |c| *n <= c) && (cfg.elem.id_bits != 8 || *n <= 135)).collect(),
                &fam::bulk_ops,
                1,
            );
            // Clone::clone_from with a Clone that panics at the k-th element
            crate::special::c08_clone_from(ctx);
        }
        "C07" => {
            fam::exhaustive(ctx, "forget", &cfgs, l, false, &fam::forget_ops);
        }
        "C13" => {
            fam::exhaustive(ctx, "handle", &cfgs, l, true, &fam::handle_ops);
            // the i-th iterator item is the i-th element, also when reached by nth / nth_back / after clones
            fam::exhaustive(ctx, "iter", &cfgs, l.min(4), false, &fam::iter_ops);
            // typed views kept across an operation (also a splice whose replacement grows meanwhile) stay faithful views
            fam::exhaustive(ctx, "range", &cfgs, 3, false, &fam::range_ops);
            fam::exhaustive(ctx, "elem", &cfgs, 3, false, &fam::elem_seqs);
            crate::special::stack_overaligned(ctx);
            scale(ctx);
        }
        "C17" => {
            crate::special::c17_builders(ctx);
            cfgs.retain(|c| c.mem == hvcore::rigapi::MemKind::Heap);
            fam::exhaustive(ctx, "rawparts", &cfgs, l.min(5), false, &fam::rawparts_ops);
            fam::histories(ctx, "rawparts-hist", &cfgs, &hist(thorough, true, true, true, true));
            crate::special::c17_empty(ctx);
        }
        other => {
            eprintln!("unknown property {other}");
            std::process::exit(2);
        }
    }
}
