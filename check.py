#!/usr/bin/env python3
"""Driver for the any_vec runtime-monitoring checks.

  check.py <PROP> [--tier quick|thorough] [--seed N] [--replay FILE] [--keep-going]
  check.py --setup            pre-build every mode once

Exit 0: property held on everything explored (KNOWN-FINDING lines may be printed).
Exit 1: at least one `VIOLATION property=<id> replay=<path>` line.
Exit 2: inconclusive (watchdog, build failure, tool unavailable) - never a VIOLATION.
"""
import hashlib
import json
import os
import subprocess
import sys
import time
from concurrent.futures import ThreadPoolExecutor

ROOT = os.path.dirname(os.path.abspath(__file__))
HARNESS = os.path.join(ROOT, "harness")
# isolated mutant runs (tools/seed.py) use their own build directory so that their artifacts never mix with the real ones
TARGET = os.environ.get("VERIF_TARGET_DIR") or os.path.join(ROOT, "target")
OUT = os.path.join(ROOT, "out")
# runs against deliberately broken trees (tools/seed.py, selftest) redirect their evidence away from the committed files
EVIDENCE = os.environ.get("VERIF_EVIDENCE_DIR") or os.path.join(ROOT, "evidence")
KNOWN = os.path.join(ROOT, "KNOWN_FINDINGS.txt")
NCPU = os.cpu_count() or 4

sys.path.insert(0, ROOT)
from checks_table import CHECKS, MODES  # noqa: E402


def env_base():
    e = dict(os.environ)
    e["CARGO_NET_OFFLINE"] = "true"
    e.pop("RUSTFLAGS", None)
    e.pop("MIRIFLAGS", None)
    return e


def build(mode):
    """Build the harness binary for a mode from /repo's current working tree. Returns (ok, binary|None, log)."""
    m = MODES[mode]
    tdir = os.path.join(TARGET, m.get("target", mode))
    env = env_base()
    env.update(m.get("env", {}))
    cmd = list(m["build"]) + ["--manifest-path", os.path.join(HARNESS, "Cargo.toml"), "--target-dir", tdir] + m.get("build_tail", [])
    t0 = time.time()
    p = subprocess.run(cmd, env=env, stdout=subprocess.PIPE, stderr=subprocess.STDOUT, text=True, cwd=HARNESS)
    ok = p.returncode == 0
    binary = os.path.join(tdir, m["bin"]) if m.get("bin") else None
    return ok, binary, p.stdout, time.time() - t0


def run_shard(mode, binary, args, shard, nshards, timeout, tag):
    m = MODES[mode]
    env = env_base()
    env.update(m.get("env", {}))
    env.update(m.get("run_env", {}))
    os.makedirs(os.path.join(OUT, "crumbs"), exist_ok=True)
    crumb = os.path.join(OUT, "crumbs", f"{tag}-{mode}-{shard}.crumb")
    tdir = os.path.join(TARGET, m.get("target", mode))
    if m.get("runner"):
        cmd = [x.replace("{target}", tdir).replace("{manifest}", os.path.join(HARNESS, "Cargo.toml")) for x in m["runner"]]
        if binary:
            cmd = [x.replace("{bin}", binary) for x in cmd]
    else:
        cmd = [binary]
    cmd += ["run"] + args + ["--shard", f"{shard}/{nshards}", "--crumb", crumb] + m.get("hv_args", [])
    t0 = time.time()
    try:
        p = subprocess.run(cmd, env=env, stdout=subprocess.PIPE, stderr=subprocess.PIPE, text=True, timeout=timeout, cwd=HARNESS)
        rc, out, err = p.returncode, p.stdout, p.stderr
        timed_out = False
    except subprocess.TimeoutExpired as e:
        rc, out, err = None, (e.stdout or b"").decode("utf8", "replace") if isinstance(e.stdout, bytes) else (e.stdout or ""), ""
        timed_out = True
    crumb_txt = ""
    try:
        crumb_txt = open(crumb).read().strip()
    except OSError:
        pass
    return dict(mode=mode, shard=shard, rc=rc, out=out, err=err, timed_out=timed_out, crumb=crumb_txt, wall=time.time() - t0, cmd=cmd)


def load_known():
    known, fixed = [], []
    if os.path.exists(KNOWN):
        for line in open(KNOWN):
            line = line.strip()
            if not line or line.startswith("#"):
                continue
            if line.startswith("known:"):
                parts = dict(kv.split("=", 1) for kv in line[len("known:"):].split() if "=" in kv and kv.split("=", 1)[0] in ("property", "sig"))
                known.append((parts.get("property"), parts.get("sig"), line))
            elif line.startswith("fixed:"):
                fixed.append(line)
    return known, fixed


def write_replay(prop, v, mode, tier):
    os.makedirs(os.path.join(OUT, "replay"), exist_ok=True)
    h = hashlib.sha1(json.dumps(v, sort_keys=True).encode()).hexdigest()[:12]
    path = os.path.join(OUT, "replay", f"{prop}-{h}.case")
    rec = dict(v)
    rec.update(property=prop, mode=mode, tier=tier)
    with open(path, "w") as f:
        json.dump(rec, f, indent=1)
    return path


def replay(prop, path):
    rec = json.load(open(path))
    mode = rec.get("mode", "rel")
    if rec.get("external"):
        print(json.dumps(rec, indent=1))
        print("(this violation was produced by a non-harness step; re-run the check to reproduce)")
        return 0
    ok, binary, log, _ = build(mode)
    if not ok:
        print(log)
        print("INCONCLUSIVE build failed")
        return 2
    args = ["--prop", prop, "--tier", rec.get("tier", "quick"), "--seed", str(rec.get("seed", 1)), "--verbose",
            "--only", f"{rec['family']}|{rec['cfg']}|{rec['ordinal']}"]
    r = run_shard(mode, binary, args, 0, 1, 3600, f"replay-{prop}")
    sys.stdout.write(r["err"])
    sys.stdout.write(r["out"])
    return 0


def main():
    argv = sys.argv[1:]
    if not argv:
        print(__doc__)
        return 2
    if argv[0] == "--setup":
        rc = 0
        for mode in MODES:
            if MODES[mode].get("setup", True):
                ok, _, log, dt = build(mode)
                print(f"setup: build {mode}: {'ok' if ok else 'FAILED'} ({dt:.0f}s)")
                if not ok:
                    print(log[-3000:])
                    if not MODES[mode].get("optional"):
                        rc = 1
        return rc
    prop = argv[0]
    tier = os.environ.get("VERIF_TIER", "quick")
    seed = int(os.environ.get("VERIF_SEED", "1") or 1)
    replay_path = None
    i = 1
    while i < len(argv):
        if argv[i] == "--tier":
            tier = argv[i + 1]; i += 2
        elif argv[i] == "--seed":
            seed = int(argv[i + 1]); i += 2
        elif argv[i] == "--replay":
            replay_path = argv[i + 1]; i += 2
        else:
            i += 1
    if prop not in CHECKS:
        print(f"unknown property {prop}")
        return 2
    if replay_path:
        return replay(prop, replay_path)
    spec = CHECKS[prop]
    t_start = time.time()
    runs = [r for r in spec["runs"] if tier in r.get("tiers", ("quick", "thorough"))]
    viols, stats, distinct, inconclusive, notes = [], [], set(), [], []
    mode_summary = {}
    external = []
    # 1. builds (modes with distinct target directories are built concurrently)
    binaries = {}
    todo = []
    for r in runs:
        mode = r["mode"] if not r.get("external") else None
        if mode and mode not in todo:
            todo.append(mode)
    groups = {}
    for mode in todo:
        groups.setdefault(MODES[mode].get("target", mode), []).append(mode)

    def build_group(modes):
        return [(m,) + build(m) for m in modes]

    with ThreadPoolExecutor(max_workers=4) as ex:
        built = [x for grp in ex.map(build_group, groups.values()) for x in grp]
    for (mode, ok, binary, log, dt) in built:
        if not ok:
            if MODES[mode].get("optional"):
                notes.append(f"mode {mode} unavailable (build failed); skipped")
                binaries[mode] = None
                continue
            print(log[-4000:])
            print(f"INCONCLUSIVE build of mode {mode} failed")
            return 2
        binaries[mode] = binary
        mode_summary[mode] = dict(build_s=round(dt, 1), shards=0, evaluations=0)
    # 2. external (non-harness) steps
    for r in runs:
        if r.get("external"):
            import importlib
            mod = importlib.import_module(r["external"])
            res = mod.run(prop=prop, tier=tier, seed=seed, root=ROOT)
            external.append(res)
            for v in res.get("violations", []):
                v = dict(v); v["external"] = r["external"]; v["mode"] = r["external"]
                viols.append(v)
            if res.get("inconclusive"):
                inconclusive.append(res["inconclusive"])
    # 3. harness shards
    jobs = []
    for r in runs:
        if r.get("external"):
            continue
        mode = r["mode"]
        if mode not in mode_summary:
            continue
        n = r.get("shards", NCPU)
        args = ["--prop", prop, "--tier", tier, "--seed", str(seed)] + r.get("args", [])
        for s in range(n):
            jobs.append((mode, binaries.get(mode), args, s, n, r.get("timeout", 3600)))
    with ThreadPoolExecutor(max_workers=NCPU) as ex:
        results = list(ex.map(lambda j: run_shard(j[0], j[1], j[2], j[3], j[4], j[5], prop), jobs))
    for res in results:
        mode = res["mode"]
        ms = mode_summary.setdefault(mode, dict(build_s=0, shards=0, evaluations=0))
        ms["shards"] += 1
        got_stat = False
        for line in res["out"].splitlines():
            line = line.strip()
            if not line.startswith("{"):
                continue
            try:
                d = json.loads(line)
            except ValueError:
                continue
            if d.get("t") == "viol":
                d["mode"] = mode
                viols.append(d)
            elif d.get("t") == "distinct":
                distinct.update(d["h"])
            elif d.get("t") == "stat":
                d["mode"] = mode
                stats.append(d)
                ms["evaluations"] += d.get("evaluations", 0)
                got_stat = True
        if res["timed_out"]:
            inconclusive.append(f"mode {mode} shard {res['shard']} hit the watchdog in case [{res['crumb']}]")
        elif res["rc"] != 0 or not got_stat:
            # died: a signal / abort / tool report while inside a case is a violation of this property
            tail = (res["err"] or "")[-1500:]
            tool = MODES[mode].get("classify")
            kind = "crash"
            if tool:
                kind = tool(res["err"] or "") or "crash"
            parts = res["crumb"].split("|")
            fam = parts[0] if parts else ""
            cfg = parts[1] if len(parts) > 1 else ""
            ordinal = parts[-1].strip() if parts and parts[-1].strip().isdigit() else "0"
            relevant = kind in spec.get("tool_kinds", ["crash"]) or kind == "crash"
            rec = dict(t="viol", prop=prop, kind=kind, sig=f"{kind}:{mode}", detail=f"shard died (rc={res['rc']}) in case [{res['crumb']}]: {tail}",
                       desc=res["crumb"], cfg=cfg, family=fam, ordinal=int(ordinal or 0), seed=seed, mode=mode)
            if relevant:
                viols.append(rec)
            else:
                notes.append(f"mode {mode} shard {res['shard']}: report of kind {kind} (not a symptom of {prop}) in [{res['crumb']}]")
    # 4. verdicts
    known, _fixed = load_known()
    reported, known_hits = [], {}
    for v in viols:
        hit = None
        for (kp, ksig, line) in known:
            if kp == prop and ksig == v.get("sig"):
                hit = line
                break
        if hit:
            known_hits.setdefault(hit, 0)
            known_hits[hit] += 1
        else:
            reported.append(v)
    for line, n in known_hits.items():
        what = line.split(" ", 3)[-1] if line.count(" ") >= 3 else line
        print(f"KNOWN-FINDING: property={prop} {what} (observed {n}x)")
    seen = set()
    nviol = 0
    for v in reported:
        key = (v.get("sig"), v.get("cfg"))
        if key in seen and nviol >= 12:
            continue
        seen.add(key)
        nviol += 1
        path = write_replay(prop, v, v.get("mode", "rel"), tier)
        print(f"VIOLATION property={prop} replay={path}")
        print(f"  [{v.get('mode')}] {v.get('sig')}: {v.get('detail')}")
        print(f"  in: {v.get('desc')}")
        if nviol >= 25:
            print(f"  ... {len(reported) - nviol} more suppressed")
            break
    # 5. evidence
    evaluations = sum(s.get("evaluations", 0) for s in stats) + sum(e.get("evaluations", 0) for e in external)
    counters = {}
    samples, opsigs, states, cfgs, others = [], set(), set(), set(), []
    for s in stats:
        for k, val in s.get("counters", {}).items():
            counters[k] = counters.get(k, 0) + val
        for x in s.get("samples", []):
            if len(samples) < 12 and x not in samples:
                samples.append(x)
        opsigs.update(s.get("opsigs", []))
        states.update(s.get("states", []))
        cfgs.update(s.get("cfgs", []))
        for x in s.get("other_symptoms", []):
            if len(others) < 6:
                others.append(x)
    dn = len(distinct)
    for e in external:
        dn += e.get("distinct_nontrivial", 0)
        for x in e.get("samples", []):
            if len(samples) < 16:
                samples.append(x)
        for k, val in e.get("counters", {}).items():
            counters[k] = counters.get(k, 0) + val
        cfgs.update(e.get("cfgs", []))
        opsigs.update(e.get("opsigs", []))
    floor_fail = []
    for k, minimum in spec.get("floors", {}).get(tier, spec.get("floors", {}).get("any", {})).items():
        got = evaluations if k == "evaluations" else counters.get(k, 0)
        if got < minimum:
            floor_fail.append(f"{k}={got} < floor {minimum}")
    if floor_fail and not reported:
        inconclusive.append("observation floor not reached: " + "; ".join(floor_fail))
    wall = time.time() - t_start
    ev = {
        "property_id": prop,
        "tier": tier,
        "seed": seed,
        "level": spec["level"],
        "coverage": {
            "evaluations": evaluations,
            "distinct_nontrivial": dn,
            "rule": spec["rule"],
            "samples": samples,
            "exhaustive": False,
            "modes": mode_summary,
            "operation_signatures_seen": sorted(opsigs),
            "abstract_states_seen": len(states),
            "configurations_run": sorted(cfgs),
            "monitor_events": counters,
            "steps": sum(s.get("steps", 0) for s in stats),
            "symptoms_of_other_properties_seen": others,
            "known_findings_observed": sum(known_hits.values()),
            "notes": notes,
            "inconclusive": inconclusive,
            "external": [{k: v for k, v in e.items() if k not in ("violations", "samples")} for e in external],
        },
        "assumptions": spec.get("assumptions", []),
        "wall_s": round(wall, 2),
        "violations": len(reported),
    }
    os.makedirs(EVIDENCE, exist_ok=True)
    with open(os.path.join(EVIDENCE, f"{prop}.json"), "w") as f:
        json.dump(ev, f, indent=1)
    print(f"{prop} [{tier}] seed={seed}: {evaluations} case executions, {dn} distinct non-trivial, "
          f"{len(cfgs)} configurations, {len(opsigs)} operation signatures, {len(reported)} violation(s), "
          f"{sum(known_hits.values())} known-finding observation(s), {wall:.1f}s")
    for n in notes:
        print("note:", n)
    if reported:
        return 1
    if inconclusive:
        for x in inconclusive:
            print("INCONCLUSIVE", x)
        return 2
    return 0


if __name__ == "__main__":
    sys.exit(main())
