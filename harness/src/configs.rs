//! The declared covering table of configurations (element type x backend x constraint set).

use any_vec::mem::{Stack, StackN};
use any_vec::traits::{Cloneable, None as TNone};
use any_vec::SatisfyTraits;

use crate::caps::{MemCaps, TrCaps};
use hvcore::elems::*;
use hvcore::rigapi::CfgEntry;
use crate::guardmem::GuardMem;
use crate::rig::make_rig;

fn entry<T: Elem + SatisfyTraits<Tr>, M: MemCaps, Tr: ?Sized + TrCaps>(core: bool) -> CfgEntry {
    CfgEntry {
        name: format!("{}:{}:{}", T::NAME, M::NAME, Tr::NAME),
        make: make_rig::<T, M, Tr>,
        elem: elem_info::<T>(),
        mem: M::KIND,
        traits: Tr::NAME,
        cloneable: Tr::CLONEABLE,
        resizable: M::RESIZABLE,
        fixed_cap: M::fixed_cap(std::mem::size_of::<T>()),
        core,
    }
}

macro_rules! add {
    ($v:ident, $core:expr, $T:ty, $M:ty, $Tr:ty) => {
        $v.push(entry::<$T, $M, $Tr>($core));
    };
}

pub fn all() -> Vec<CfgEntry> {
    let mut v: Vec<CfgEntry> = Vec::new();
    type Cl = dyn Cloneable;
    // every layout on the instrumented relocating backend
    add!(v, false, Z0, GuardMem, Cl);
    add!(v, true, Z0d, GuardMem, Cl);
    add!(v, false, Z0a64, GuardMem, Cl);
    add!(v, false, U1, GuardMem, Cl);
    add!(v, true, U1d, GuardMem, Cl);
    add!(v, false, U2, GuardMem, Cl);
    add!(v, false, P3, GuardMem, Cl);
    add!(v, true, P3d, GuardMem, Cl);
    add!(v, true, W8, GuardMem, Cl);
    add!(v, true, W8d, GuardMem, Cl);
    add!(v, true, B8, GuardMem, Cl);
    add!(v, false, T12, GuardMem, Cl);
    add!(v, true, T12d, GuardMem, Cl);
    add!(v, false, S16d, GuardMem, Cl);
    add!(v, true, Q16, GuardMem, Cl);
    add!(v, true, S24d, GuardMem, Cl);
    add!(v, true, A32d, GuardMem, Cl);
    add!(v, false, A64d, GuardMem, Cl);
    add!(v, true, L160d, GuardMem, Cl);
    add!(v, true, M40d, GuardMem, Cl);
    add!(v, false, H72d, GuardMem, Cl);
    // every layout on the built-in heap backend
    #[cfg(feature = "alloc")]
    {
        use any_vec::mem::Heap;
        add!(v, false, Z0, Heap, Cl);
        add!(v, true, Z0d, Heap, Cl);
        add!(v, false, Z0a64, Heap, Cl);
        add!(v, false, U1, Heap, Cl);
        add!(v, true, U1d, Heap, Cl);
        add!(v, false, U2, Heap, Cl);
        add!(v, false, P3, Heap, Cl);
        add!(v, true, P3d, Heap, Cl);
        add!(v, true, W8, Heap, Cl);
        add!(v, true, W8d, Heap, Cl);
        add!(v, true, B8, Heap, Cl);
        add!(v, false, T12, Heap, Cl);
        add!(v, true, T12d, Heap, Cl);
        add!(v, false, S16d, Heap, Cl);
        add!(v, true, Q16, Heap, Cl);
        add!(v, true, S24d, Heap, Cl);
        add!(v, true, A32d, Heap, Cl);
        add!(v, false, A64d, Heap, Cl);
        add!(v, true, L160d, Heap, Cl);
        add!(v, false, M40d, Heap, Cl);
        add!(v, true, H72d, Heap, Cl);
        // all eight constraint sets on two layouts
        add!(v, false, W8d, Heap, dyn TNone);
        add!(v, false, W8d, Heap, dyn Send);
        add!(v, false, W8d, Heap, dyn Sync);
        add!(v, true, W8d, Heap, dyn Send + Sync);
        add!(v, false, W8d, Heap, dyn Cloneable + Send);
        add!(v, false, W8d, Heap, dyn Cloneable + Sync);
        add!(v, true, W8d, Heap, dyn Cloneable + Send + Sync);
        add!(v, true, S24d, Heap, dyn TNone);
        add!(v, false, S24d, Heap, dyn Send);
        add!(v, false, S24d, Heap, dyn Sync);
        add!(v, false, S24d, Heap, dyn Send + Sync);
        add!(v, false, S24d, Heap, dyn Cloneable + Send);
        add!(v, false, S24d, Heap, dyn Cloneable + Sync);
        add!(v, false, S24d, Heap, dyn Cloneable + Send + Sync);
    }
    // representative layouts on the inline backends (element alignment <= 8: see C12 / D10)
    add!(v, false, Z0d, Stack<0>, Cl);
    add!(v, true, U1d, Stack<6>, Cl);
    add!(v, false, P3d, Stack<20>, Cl);
    add!(v, true, W8d, Stack<55>, Cl);
    add!(v, false, W8, Stack<200>, Cl);
    add!(v, false, T12d, Stack<80>, Cl);
    add!(v, true, S24d, Stack<150>, Cl);
    add!(v, false, L160d, Stack<1000>, Cl);
    add!(v, false, M40d, Stack<250>, Cl);
    add!(v, false, W8d, Stack<55>, dyn TNone);
    add!(v, false, Z0d, StackN<6, 0>, Cl);
    add!(v, false, U1d, StackN<6, 6>, Cl);
    add!(v, false, P3d, StackN<6, 18>, Cl);
    add!(v, true, W8d, StackN<6, 48>, Cl);
    add!(v, false, T12d, StackN<6, 72>, Cl);
    add!(v, true, S24d, StackN<6, 150>, Cl);
    add!(v, false, L160d, StackN<6, 960>, Cl);
    add!(v, false, S24d, StackN<6, 144>, dyn Cloneable + Send + Sync);
    // make names unique (const parameters are not part of M::NAME)
    let mut seen = std::collections::HashMap::<String, usize>::new();
    for e in v.iter_mut() {
        let c = seen.entry(e.name.clone()).or_insert(0);
        *c += 1;
        if *c > 1 {
            e.name = format!("{}#{}", e.name, *c);
        }
    }
    v
}
